(** C11: the list of names printed by -r, one per line, read as an ordering file, is that list again. *)
From Coq Require Import List NArith Bool Arith Lia.
Import ListNotations.
From Rsbdd Require Import Syntax.Lexer Syntax.LexSpec Syntax.LexUnique Syntax.Token Syntax.Tokenize Cli.Pipeline.
Local Open Scope N_scope.

Section Export.
  Variable uc : N -> ucls.
  Notation is_digit := (is_digit uc).
  Notation is_word := (is_word uc).
  Notation lexeme := (lexeme uc).
  Notation Lexes := (Lexes uc).

  (** an identifier lexeme: a word character that is not a digit, followed by word characters *)
  Definition ident_word (w : list N) : Prop :=
    match w with c :: r => is_word c = true /\ is_digit c = false /\ all_b is_word r | [] => False end.

  (** every identifier token of a tokenisation is such a word *)
  Lemma Lexes_idents l ts : Lexes l ts -> forall w, In (RIdent w) ts -> ident_word w.
  Proof.
    induction 1 as [|w t r ts Hl Hm _ IH|w r ts _ _ _ IH|c r ts _ _ _ IH]; intros w0 Hin; auto; [destruct Hin|].
    destruct Hin as [E|Hin]; [|apply IH; exact Hin]. subst t.
    inversion Hl as [| | |c0 w1 Wc Dc Ww]; subst. cbn. auto.
  Qed.
  Lemma ident_names_words rs : (forall w, In (RIdent w) rs -> ident_word w) -> forall w, In w (ident_names rs) -> ident_word w.
  Proof.
    induction rs as [|t rs IH]; intros H w Hw; [destruct Hw|]. cbn [ident_names] in Hw.
    destruct t as [s|ds|w'|w']; try (apply IH; [intros u Hu; apply H; right; exact Hu|exact Hw]).
    destruct (assoc w' keywords).
    - apply IH; [intros u Hu; apply H; right; exact Hu|exact Hw].
    - destruct Hw as [<-|Hw]; [apply H; left; reflexivity|apply IH; [intros u Hu; apply H; right; exact Hu|exact Hw]].
  Qed.

  (** the exported text: every name followed by a newline *)
  Fixpoint export (ws : list (list N)) : list N := match ws with [] => [] | w :: r => w ++ 10 :: export r end.

  Lemma word_10 : is_word 10 = false. Proof. reflexivity. Qed.
  Lemma digit_10 : is_digit 10 = false. Proof. reflexivity. Qed.

  (** nothing starts at a newline *)
  Lemma no_lexeme_10 r w' t' : prefix w' (10 :: r) -> ~ lexeme w' t'.
  Proof.
    intros Hp Hl. destruct w' as [|c w']; [exact (lexeme_nonempty uc _ _ Hl eq_refl)|].
    destruct Hp as [r0 E]. cbn [app] in E. inversion E; subst c.
    inversion Hl as [s w1 S1|w1 N1 D1|w1 N1 W1|c1 w1 Wc1 Dc1 W1]; subst.
    - pose proof (sym_string_first _ _ _ S1) as Hs. vm_compute in Hs. discriminate.
    - inversion D1 as [|? ? Hc _]; subst. rewrite digit_10 in Hc. discriminate.
    - rewrite word_10 in Wc1. discriminate.
  Qed.
  Lemma no_comment_10 r w' : prefix w' (10 :: r) -> ~ comment w'.
  Proof. intros [r0 E] Hc. destruct (comment_first _ Hc) as (w0 & ->). cbn [app] in E. inversion E. Qed.

  (** an identifier word followed by a newline is a maximal lexeme *)
  Lemma ident_maximal w r : ident_word w -> maximal uc w (w ++ 10 :: r).
  Proof.
    destruct w as [|c w]; [intros []|]. intros (Wc & Dc & Ww) w' t' Hp Hl.
    destruct (Nat.le_gt_cases (length w') (length (c :: w))) as [|Hgt]; [assumption|exfalso].
    destruct Hp as [r0 E].
    (* w' is longer than c :: w, so it contains the newline at position length (c :: w) *)
    assert (Hnth : nth_error w' (length (c :: w)) = Some 10).
    { assert (H1 : nth_error ((c :: w) ++ 10 :: r) (length (c :: w)) = Some 10) by (rewrite nth_error_app2 by lia; rewrite Nat.sub_diag; reflexivity).
      rewrite E in H1. rewrite nth_error_app1 in H1 by lia. exact H1. }
    assert (Hhd : exists w0, w' = c :: w0).
    { destruct w' as [|c' w0]; [cbn in Hgt; lia|]. cbn [app] in E. inversion E. eauto. }
    destruct Hhd as (w0 & ->).
    inversion Hl as [s w1 S1|w1 N1 D1|w1 N1 W1|c1 w1 Wc1 Dc1 W1]; subst.
    - pose proof (sym_string_first _ _ _ S1) as Hs. destruct (sym_char_class uc c Hs) as (_ & Hw & _). congruence.
    - inversion D1 as [|? ? Hc _]; subst. congruence.
    - rewrite word_123 in Wc. discriminate.
    - cbn [length nth_error] in Hnth. apply nth_error_In in Hnth. unfold all_b in W1. rewrite Forall_forall in W1.
      specialize (W1 10 Hnth). rewrite word_10 in W1. discriminate.
  Qed.

  Lemma export_lexes ws : Forall ident_word ws -> Lexes (export ws) (map RIdent ws).
  Proof.
    induction 1 as [|w ws Hw _ IH]; cbn [export map]; [constructor|].
    apply Lx_tok.
    - destruct w as [|c w]; [destruct Hw|]. destruct Hw as (Wc & Dc & Ww). apply L_ident; auto.
    - apply ident_maximal. exact Hw.
    - apply Lx_skip; [intros w' t'; apply no_lexeme_10|intros w'; apply no_comment_10|exact IH].
  Qed.
  Theorem export_lex_raw ws : Forall ident_word ws -> lex_raw uc (export ws) = map RIdent ws.
  Proof. intros H. symmetry. apply (proj1 (C08_lex_unique uc (export ws) (map RIdent ws))). apply export_lexes. exact H. Qed.
End Export.

(** ---- the exported list as an ordering file ---- *)
From Rsbdd Require Import Core.Bdd Lang.Ast Cli.Table Cli.TableFilter Cli.PipelineFacts Cli.Ordering Cli.RoundTrip.
Local Close Scope N_scope.

Lemma ident_names_not_keyword rs : forall w, In w (ident_names rs) -> assoc w keywords = None.
Proof.
  induction rs as [|t rs IH]; intros w Hw; [destruct Hw|]. cbn [ident_names] in Hw.
  destruct t as [s|ds|w'|w']; try (apply IH; exact Hw).
  destruct (assoc w' keywords) eqn:Ek; [apply IH; exact Hw|]. destruct Hw as [<-|Hw]; [exact Ek|apply IH; exact Hw].
Qed.
Lemma ident_names_map_RIdent ws : (forall w, In w ws -> assoc w keywords = None) -> ident_names (map RIdent ws) = ws.
Proof.
  induction ws as [|w ws IH]; intros H; cbn [map ident_names]; [reflexivity|].
  rewrite (H w (or_introl eq_refl)). f_equal. apply IH. intros u Hu. apply H. right. exact Hu.
Qed.
Lemma classify_idents : forall ws m c, exists ts, classify m c (map RIdent ws) = Some ts.
Proof.
  induction ws as [|w ws IH]; intros m c; cbn [map classify]; [eauto|].
  destruct (assoc w keywords); [destruct (IH m c) as (ts & ->); cbn; eauto|].
  destruct (assoc w m); [destruct (IH m c) as (ts & ->); cbn; eauto|destruct (IH ((w, c) :: m) (S c)) as (ts & ->); cbn; eauto].
Qed.
Lemma dedup_names_NoDup_id : forall ws seen, NoDup ws -> (forall w, In w ws -> ~ In w seen) -> dedup_names seen ws = ws.
Proof.
  induction ws as [|w ws IH]; intros seen Hnd Hs; cbn [dedup_names]; [reflexivity|]. inversion Hnd as [|? ? Hw Hnd']; subst.
  assert (E : existsb (name_eqb w) seen = false).
  { destruct (existsb (name_eqb w) seen) eqn:Ex; [|reflexivity]. exfalso. apply existsb_exists in Ex. destruct Ex as (u & Hu & Eu).
    destruct (name_eqb_spec w u); [subst; exact (Hs u (or_introl eq_refl) Hu)|discriminate]. }
  rewrite E. f_equal. apply IH; [exact Hnd'|]. intros u Hu [->|Hin]; [contradiction|]. exact (Hs u (or_intror Hu) Hin).
Qed.

Theorem export_ordering uc ws : Forall (ident_word uc) ws -> NoDup ws -> (forall w, In w ws -> assoc w keywords = None) ->
  ordering_of_file uc (export ws) = Done (number_from 0 ws).
Proof.
  intros Hw Hnd Hk. unfold ordering_of_file, tokenize. cbn [preload fold_left].
  rewrite (export_lex_raw uc ws Hw). destruct (classify_idents ws [] 0) as (ts & ->).
  rewrite (ident_names_map_RIdent ws Hk), (dedup_names_NoDup_id ws [] Hnd); [reflexivity|intros w _ []].
Qed.

(** what -r prints: the distinct non-keyword identifiers of the text that occur as variables, each once *)
Lemma order_names_spec fuel uc o ordfile txt out : cli fuel uc o ordfile txt = CliOk out ->
  NoDup (out_order out) /\ forall w, In w (out_order out) -> In w (ident_names (lex_raw uc txt)).
Proof.
  intros H1. unfold cli in H1.
  destruct (match ordfile with None => Done [] | Some otxt => ordering_of_file uc otxt end) as [ord1| |] eqn:Ho1; try discriminate.
  assert (Hd1 : NoDup (map snd ord1)).
  { destruct ordfile as [otxt|]; [exact (ordering_of_file_distinct uc otxt ord1 Ho1)|]. inversion Ho1; subst. constructor. }
  destruct (parsed_formula uc ord1 txt) as [p1| |] eqn:Hp1; try discriminate.
  destruct (printed_diagram fuel o p1) as [d1| |]; try discriminate.
  destruct (tt_rows_f _ _ _ _) as [rows1|]; try discriminate. destruct (tv_rows _ _ _) as [tv1|]; try discriminate.
  injection H1 as <-. cbn [out_order].
  destruct (runs_related uc ord1 ord1 txt p1 p1 Hd1 Hd1 Hp1 Hp1) as (pp & qq & ts1 & ts2 & Hqp & Ht1 & _ & _ & _ & _ & _ & Hagree).
  set (names1 := name_table uc ord1 txt) in *.
  unfold parsed_formula in Hp1. rewrite Ht1 in Hp1.
  destruct (pf_vars_spec ts1 p1 Hp1) as (Hnd1 & _ & Hin1 & _).
  assert (Hvt : forall x, In x (pf_vars p1) -> In x (tok_vars ts1)) by (intros x Hx; apply Hin1; exact Hx).
  split.
  - assert (Hname_inj : forall x y, In x (pf_vars p1) -> In y (pf_vars p1) -> name_of names1 x = name_of names1 y -> x = y).
    { intros x y Hx Hy E. destruct (Hagree x (Hvt x Hx)) as (_ & _ & wx & _ & Ex & Nx). destruct (Hagree y (Hvt y Hy)) as (_ & _ & wy & _ & Ey & Ny).
      rewrite Ex, Ey. rewrite <- Nx, <- Ny, E. reflexivity. }
    clear - Hnd1 Hname_inj. induction (pf_vars p1) as [|x l IH]; cbn [map]; constructor.
    + intros Hin. apply in_map_iff in Hin. destruct Hin as (y & Ey & Hy). inversion Hnd1; subst.
      assert (y = x) by (apply Hname_inj; [right; exact Hy|left; reflexivity|exact Ey]). subst. contradiction.
    + inversion Hnd1; subst. apply IH; auto. intros a b Ha Hb. apply Hname_inj; right; auto.
  - intros w Hw. apply in_map_iff in Hw. destruct Hw as (x & <- & Hx).
    destruct (Hagree x (Hvt x Hx)) as (_ & _ & w & Hw & _ & Nw). rewrite Nw. exact Hw.
Qed.

(** the round trip through the exported text itself *)
Theorem C11_roundtrip_export fuel fuel' uc o ordfile1 txt out1 out2 :
  cli fuel uc o ordfile1 txt = CliOk out1 ->
  cli fuel' uc o (Some (export (out_order out1))) txt = CliOk out2 ->
  out_header out2 = out_header out1 /\ out_rows out2 = out_rows out1 /\ out_true out2 = out_true out1 /\ out_order out2 = out_order out1.
Proof.
  intros H1 H2. destruct (order_names_spec fuel uc o ordfile1 txt out1 H1) as [Hnd Hin].
  apply (C11_roundtrip fuel fuel' uc o ordfile1 txt out1 (export (out_order out1)) out2 H1); [|exact H2].
  apply export_ordering; [|exact Hnd|].
  - rewrite Forall_forall. intros w Hw. apply (ident_names_words uc (lex_raw uc txt)); [|apply Hin; exact Hw].
    intros u Hu. exact (Lexes_idents uc txt (lex_raw uc txt) (C08_lex uc txt) u Hu).
  - intros w Hw. apply (ident_names_not_keyword (lex_raw uc txt)). apply Hin. exact Hw.
Qed.
Print Assumptions C11_roundtrip_export.
