(** C12 / C06 at the level of the command line: a text whose fixed-point binders all bind a name that is positive in its own
    body (posfix, in particular every text without lfp / gfp) is answered - with enough fuel the pipeline model neither
    diverges nor fails in a printer; it prints or reports a tokenizer / parser / ordering-file error, and which of the two
    does not depend on the fuel. *)
From Coq Require Import List Arith Bool Lia PeanoNat NArith.
Import ListNotations.
From Rsbdd Require Import Core.Bdd Lang.Ast Lang.AstFacts Lang.Eval Lang.EvalSound Lang.EvalComplete Lang.Free Lang.Mono Lang.FixNested.
From Rsbdd Require Import Syntax.Token Syntax.Lexer Syntax.Tokenize Syntax.Parser Cli.Table Cli.TableFilter Cli.Pipeline Cli.PipelineFacts Cli.Ordering.

Definition cli_form (uc : N -> ucls) (ordfile : option (list N)) (txt : list N) : option form :=
  match (match ordfile with None => Done [] | Some otxt => ordering_of_file uc otxt end) with
  | Done ord => match parsed_formula uc ord txt with Done p => Some (pf_form p) | _ => None end
  | _ => None
  end.

Theorem cli_error_iff fuel uc o ordfile txt : cli fuel uc o ordfile txt = CliError <-> cli_form uc ordfile txt = None.
Proof.
  pose proof (C12_no_panic fuel uc o ordfile txt) as Hnp. unfold cli, cli_form in *.
  destruct (match ordfile with None => Done [] | Some otxt => ordering_of_file uc otxt end) as [ord| |]; try tauto.
  destruct (parsed_formula uc ord txt) as [p| |]; try tauto.
  destruct (printed_diagram fuel o p) as [d| |]; try (split; discriminate).
  destruct (tt_rows_f _ _ _ _); [destruct (tv_rows _ _ _)|]; split; try discriminate; intros; exfalso; apply Hnp; reflexivity.
Qed.

Theorem cli_answers uc o ordfile txt f : cli_form uc ordfile txt = Some f -> posfix f = true ->
  exists fuel0, forall fuel, fuel0 <= fuel -> exists out, cli fuel uc o ordfile txt = CliOk out.
Proof.
  intros Hf Hpf. unfold cli_form in Hf.
  destruct (match ordfile with None => Done [] | Some otxt => ordering_of_file uc otxt end) as [ord| |] eqn:Ho; try discriminate.
  destruct (parsed_formula uc ord txt) as [p| |] eqn:Hp; try discriminate. injection Hf as <-.
  assert (Hns : nofsub (pf_form p)).
  { unfold parsed_formula in Hp. destruct (tokenize uc ord txt) as [ts|]; [|discriminate].
    pose proof (parsed_tokens ts p Hp) as Par. exact (proj1 (parse_vars ts _ _ Par)). }
  destruct (posfix_evaluates (pf_form p) Hns Hpf) as (n & b & He & _).
  exists n. intros fuel Hle. pose proof (eval_mono_le n fuel _ b He Hle) as He'.
  pose proof (C12_no_panic fuel uc o ordfile txt) as Hnp. unfold cli in *. rewrite Ho in *. rewrite Hp in *.
  unfold printed_diagram in *. rewrite He' in *.
  destruct (tt_rows_f _ _ _ _); [destruct (tv_rows _ _ _)|]; try (eexists; reflexivity); exfalso; apply Hnp; reflexivity.
Qed.
Print Assumptions cli_error_iff. Print Assumptions cli_answers.
