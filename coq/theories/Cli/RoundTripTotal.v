(** C11 round trip without the hypothesis that the second run answers: if the first run prints, then the run that reads the
    exported order back tokenizes (success of the tokenizer does not depend on the id table), parses (the grammar is closed
    under renaming and the parser is complete), evaluates with some fuel (the renamed formula has the renamed denotation,
    and every denotation is reached by the evaluator) and does not fail in the printers (C12_no_panic) - and then prints the
    identical output (C11_roundtrip). *)
From Coq Require Import List Arith Bool Lia PeanoNat NArith.
Import ListNotations.
From Rsbdd Require Import Core.Bdd Core.Ops Core.OpsFacts Core.Sem Core.Canon Core.Pres Core.Cube Core.Retain.
From Rsbdd Require Import Lang.Ast Lang.AstFacts Lang.Den Lang.DenFacts Lang.Eval Lang.EvalSound Lang.EvalComplete Lang.Free Lang.Rename Lang.RankIso.
From Rsbdd Require Import Syntax.Token Syntax.Lexer Syntax.Tokenize Syntax.Parser Syntax.Grammar Syntax.ParserSound Syntax.ParserComplete.
From Rsbdd Require Import Cli.Table Cli.TableFilter Cli.Pipeline Cli.PipelineFacts Cli.Ordering Cli.RoundTrip.

(** whether the tokenizer answers depends on the text only (a number literal that does not fit), not on the id table *)
Lemma classify_indep : forall rs m c m' c' ts, classify m c rs = Some ts -> exists ts', classify m' c' rs = Some ts'.
Proof.
  induction rs as [|r rs IH]; intros m c m' c' ts H; cbn [classify] in *; [eexists; reflexivity|].
  destruct r as [s|ds|w|w].
  - destruct (classify m c rs) as [t|] eqn:E; [|discriminate]. destruct (IH _ _ m' c' _ E) as (t' & ->). eexists; reflexivity.
  - destruct (parse_usize ds); [|discriminate].
    destruct (classify m c rs) as [t|] eqn:E; [|discriminate]. destruct (IH _ _ m' c' _ E) as (t' & ->). eexists; reflexivity.
  - destruct (classify m c rs) as [t|] eqn:E; [|discriminate]. destruct (IH _ _ m' c' _ E) as (t' & ->). eexists; reflexivity.
  - destruct (assoc w keywords).
    + destruct (classify m c rs) as [t0|] eqn:E; [|discriminate]. destruct (IH _ _ m' c' _ E) as (t' & ->). eexists; reflexivity.
    + assert (Hany : exists m1 c1 t1, classify m1 c1 rs = Some t1).
      { destruct (assoc w m); [destruct (classify m c rs) eqn:E|destruct (classify ((w, c) :: m) (S c) rs) eqn:E]; try discriminate; eauto. }
      destruct Hany as (m1 & c1 & t1 & E1).
      destruct (assoc w m'); [destruct (IH _ _ m' c' _ E1) as (t' & ->)|destruct (IH _ _ ((w, c') :: m') (S c') _ E1) as (t' & ->)]; eexists; reflexivity.
Qed.

(** if the text parses under one ordering it parses under every ordering *)
Lemma second_run_parses uc o1 o2 txt p1 :
  NoDup (map snd o1) -> NoDup (map snd o2) -> parsed_formula uc o1 txt = Done p1 -> exists p2, parsed_formula uc o2 txt = Done p2.
Proof.
  intros Hd1 Hd2 Hp1.
  unfold parsed_formula, tokenize, name_table in *.
  pose proof (preload_tinv o1 Hd1) as T1. pose proof (preload_tinv o2 Hd2) as T2.
  destruct (preload o1) as [m1 c1]. destruct (preload o2) as [m2 c2]. cbn [fst snd] in T1, T2.
  set (rs := lex_raw uc txt) in *.
  destruct (classify m1 c1 rs) as [ts1|] eqn:C1; [|discriminate]. destruct (classify_indep rs m1 c1 m2 c2 ts1 C1) as (ts2 & C2). rewrite C2.
  set (mf1 := number_names m1 c1 (ident_names rs)) in *. set (mf2 := number_names m2 c2 (ident_names rs)) in *.
  pose proof (classify_render rs m1 c1 ts1 C1) as R1. pose proof (classify_render rs m2 c2 ts2 C2) as R2. fold mf1 in R1. fold mf2 in R2.
  destruct (number_names_tinv (ident_names rs) m1 c1 T1) as (d1 & F1). destruct (number_names_tinv (ident_names rs) m2 c2 T2) as (d2 & F2).
  fold mf1 in F1. fold mf2 in F2.
  assert (Cov1 : forall w, In w (ident_names rs) -> exists i, assoc w mf1 = Some i) by (intros w Hw; apply number_names_covers; exact Hw).
  assert (Cov2 : forall w, In w (ident_names rs) -> exists i, assoc w mf2 = Some i) by (intros w Hw; apply number_names_covers; exact Hw).
  pose proof (render_rename mf1 mf2 d1 d2 rs ts1 ts2 F1 F2 Cov1 R1 R2) as Hts.
  set (pp := ext_p mf1 mf2 d2). set (qq := ext_q mf1 mf2 d2).
  assert (Hqp : forall x, qq (pp x) = x) by (apply (ext_q_p mf1 mf2 d1 d2 F1 F2)).
  assert (Hagree : forall x, In x (tok_vars ts1) -> pp x = lookup_id mf2 (name_of mf1 x) /\ name_of mf2 (pp x) = name_of mf1 x /\
            exists w, In w (ident_names rs) /\ x = lookup_id mf1 w /\ name_of mf1 x = w).
  { intros x Hx. destruct (render_vars mf1 rs ts1 x R1 Hx) as (w & Hw & ->).
    destruct (Cov1 w Hw) as (i & Ei). destruct (Cov2 w Hw) as (j & Ej).
    assert (El : lookup_id mf1 w = i) by (unfold lookup_id; cbv [name idmap] in *; rewrite Ei; reflexivity). rewrite El.
    unfold pp. rewrite (ext_p_lookup mf1 mf2 d1 d2 w i F1 Ei (ex_intro _ j Ej)).
    rewrite (name_of_assoc mf1 d1 w i F1 Ei). split; [reflexivity|].
    assert (El2 : lookup_id mf2 w = j) by (unfold lookup_id; cbv [name idmap] in *; rewrite Ej; reflexivity). rewrite El2.
    split; [apply (name_of_assoc mf2 d2 w j F2 Ej)|]. exists w. split; [exact Hw|]. split; [symmetry; exact El|reflexivity]. }
  assert (Hts' : ts2 = map (rt pp) ts1).
  { rewrite Hts. apply map_ext_in. intros t Ht. destruct t; try reflexivity. cbn [rt]. f_equal. symmetry.
    apply Hagree.
    clear - Ht. induction ts1 as [|u ts IH]; [destruct Ht|]. destruct Ht as [->|Ht]; [left; reflexivity|].
    cbn [tok_vars]. destruct u; try (apply IH; exact Ht). right. apply IH. exact Ht. }
  pose proof (parsed_tokens ts1 p1 Hp1) as Par1.
  assert (G1 : G_formula ts1 (pf_form p1)).
  { apply (C08_sound_lexed (3 * length ts1 + 3) ts1 _); [|exact Par1]. destruct (classify_eof_last _ _ _ _ C1) as (body & -> & Hn). intros s r E. eapply split_at_first_eof; eauto. }
  pose proof (G_formula_rename pp ts1 _ G1) as G2. rewrite <- Hts' in G2.
  pose proof (C08_complete ts2 _ G2) as Par2. unfold parsed_of_tokens. rewrite Par2. eexists; reflexivity.
Qed.

(** a renamed formula is evaluated whenever the original is *)
Lemma rename_evaluates (p q : nat -> nat) : (forall x, q (p x) = x) -> forall n f b, nofsub f -> eval_f n f = Some b ->
  exists m b', eval_f m (rename p f) = Some b'.
Proof.
  intros Hq n f b Hns E.
  destruct (sound n f b (nofsub_wf f Hns) E) as [D _].
  assert (D' : Den empty (rename p f) (pull p (bden b))).
  { apply (Den_rename p q Hq f empty empty); auto. - intros y e Hy. discriminate. - intros x. cbn. exact I. }
  destruct (complete (S (size (rename p f))) _ _ (Nat.lt_succ_diag_r _) (nofsub_wf _ (nofsub_rename p f Hns)) D') as (m & b' & Em & _).
  exists m, b'. exact Em.
Qed.

Theorem C11_roundtrip_total fuel uc o ordfile1 txt out1 otxt2 :
  cli fuel uc o ordfile1 txt = CliOk out1 ->
  ordering_of_file uc otxt2 = Done (number_from 0 (out_order out1)) ->
  exists fuel0, forall fuel', fuel0 <= fuel' ->
    exists out2, cli fuel' uc o (Some otxt2) txt = CliOk out2 /\
      out_header out2 = out_header out1 /\ out_rows out2 = out_rows out1 /\ out_true out2 = out_true out1 /\ out_order out2 = out_order out1.
Proof.
  intros H1 Hord.
  assert (H1' := H1). unfold cli in H1'.
  destruct (match ordfile1 with None => Done [] | Some otxt => ordering_of_file uc otxt end) as [ord1| |] eqn:Ho1; try discriminate.
  assert (Hd1 : NoDup (map snd ord1)).
  { destruct ordfile1 as [otxt|]; [exact (ordering_of_file_distinct uc otxt ord1 Ho1)|]. inversion Ho1; subst. constructor. }
  destruct (parsed_formula uc ord1 txt) as [p1| |] eqn:Hp1; try discriminate.
  destruct (printed_diagram fuel o p1) as [d1| |] eqn:Hpd1; try discriminate.
  unfold printed_diagram in Hpd1. destruct (eval_f fuel (pf_form p1)) as [b1|] eqn:He1; [|discriminate]. clear H1'.
  set (ord2 := number_from 0 (out_order out1)) in *.
  assert (Hd2 : NoDup (map snd ord2)) by (unfold ord2; rewrite number_from_ids; apply seq_NoDup).
  destruct (second_run_parses uc ord1 ord2 txt p1 Hd1 Hd2 Hp1) as (p2 & Hp2).
  destruct (runs_related uc ord1 ord2 txt p1 p2 Hd1 Hd2 Hp1 Hp2) as (pp & qq & ts1 & ts2 & Hqp & _ & _ & _ & Hren & Hns1 & _).
  destruct (rename_evaluates pp qq Hqp fuel _ b1 Hns1 He1) as (m & b2 & He2).
  exists m. intros fuel' Hle.
  assert (He2' : eval_f fuel' (pf_form p2) = Some b2) by (rewrite Hren; exact (eval_mono_le m fuel' _ b2 He2 Hle)).
  pose proof (C12_no_panic fuel' uc o (Some otxt2) txt) as Hnp.
  destruct (cli fuel' uc o (Some otxt2) txt) as [out2| | |] eqn:H2.
  - exists out2. split; [reflexivity|]. exact (C11_roundtrip fuel fuel' uc o ordfile1 txt out1 otxt2 out2 H1 Hord H2).
  - exfalso. unfold cli in H2. rewrite Hord in H2. fold ord2 in H2. rewrite Hp2 in H2. unfold printed_diagram in H2. rewrite He2' in H2.
    destruct (tt_rows_f _ _ _ _); [destruct (tv_rows _ _ _)|]; discriminate H2.
  - exfalso. unfold cli in H2. rewrite Hord in H2. fold ord2 in H2. rewrite Hp2 in H2. unfold printed_diagram in H2. rewrite He2' in H2.
    destruct (tt_rows_f _ _ _ _); [destruct (tv_rows _ _ _)|]; discriminate H2.
  - contradiction.
Qed.
Print Assumptions C11_roundtrip_total.

(** the same through the exported text *)
From Rsbdd Require Import Syntax.LexSpec Syntax.LexUnique Cli.ExportReads.
Theorem C11_roundtrip_export_total fuel uc o ordfile1 txt out1 :
  cli fuel uc o ordfile1 txt = CliOk out1 ->
  exists fuel0, forall fuel', fuel0 <= fuel' ->
    exists out2, cli fuel' uc o (Some (export (out_order out1))) txt = CliOk out2 /\
      out_header out2 = out_header out1 /\ out_rows out2 = out_rows out1 /\ out_true out2 = out_true out1 /\ out_order out2 = out_order out1.
Proof.
  intros H1. destruct (order_names_spec fuel uc o ordfile1 txt out1 H1) as [Hnd Hin].
  apply (C11_roundtrip_total fuel uc o ordfile1 txt out1 (export (out_order out1)) H1).
  apply export_ordering; [|exact Hnd|].
  - rewrite Forall_forall. intros w Hw. apply (ident_names_words uc (lex_raw uc txt)); [|apply Hin; exact Hw].
    intros u Hu. exact (Lexes_idents uc txt (lex_raw uc txt) (C08_lex uc txt) u Hu).
  - intros w Hw. apply (ident_names_not_keyword (lex_raw uc txt)). apply Hin. exact Hw.
Qed.
Print Assumptions C11_roundtrip_export_total.
