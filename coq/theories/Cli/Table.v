(** C10: the rows printed by print_truth_table_recursive partition the assignment space. *)
From Coq Require Import List Arith Bool Lia PeanoNat.
Import ListNotations.
From Rsbdd Require Import Core.Bdd Core.Ops Core.OpsFacts Core.Sem Core.Canon.

(** a cell of a printed row: True / False / Any *)
Inductive cell := TT | TF | TA.
Notation tte := cell.
Definition row := (list tte * bool)%type.

Fixpoint index_of (v : nat) (l : list nat) : option nat :=
  match l with [] => None | x :: t => if Nat.eqb x v then Some 0 else option_map S (index_of v t) end.

Fixpoint set_nth {A} (i : nat) (x : A) (l : list A) : list A :=
  match l, i with [], _ => [] | _ :: t, 0 => x :: t | y :: t, S j => y :: set_nth j x t end.

(* model of print_truth_table_recursive with filter Any; None = the panic of to_free_index *)
Fixpoint tt_rows (FV : list nat) (d : bdd) (vals : list tte) : option (list row) :=
  match d with
  | F => Some [(vals, false)] | T => Some [(vals, true)]
  | Nd t v f =>
      match index_of v FV with
      | None => None
      | Some i =>
          match tt_rows FV f (set_nth i TF vals), tt_rows FV t (set_nth i TT vals) with
          | Some r0, Some r1 => Some (r0 ++ r1) | _, _ => None end
      end
  end.

Definition cell_ok (s : asg) (v : nat) (e : tte) : Prop :=
  match e with TA => True | TT => s v = true | TF => s v = false end.
Definition matches (FV : list nat) (s : asg) (vals : list tte) : Prop := Forall2 (cell_ok s) FV vals.

Lemma index_of_lt v l i : index_of v l = Some i -> i < length l /\ nth_error l i = Some v.
Proof.
  revert i; induction l as [|x l IH]; intros i H; simpl in H; [discriminate|].
  destruct (Nat.eqb_spec x v).
  - inversion H; subst. simpl. split; auto. lia.
  - destruct (index_of v l) eqn:E; simpl in H; [|discriminate]. inversion H; subst.
    destruct (IH n0 eq_refl). simpl. split; auto. lia.
Qed.

Lemma index_of_some v l : In v l -> exists i, index_of v l = Some i.
Proof.
  induction l as [|x l IH]; intros H; [destruct H|]. simpl.
  destruct (Nat.eqb_spec x v); eauto. destruct H as [->|H]; [congruence|].
  destruct (IH H) as (i & ->). simpl. eauto.
Qed.

(* matching after fixing column i *)
Lemma matches_set FV s : forall vals i v e, NoDup FV -> nth_error FV i = Some v -> length vals = length FV ->
  nth_error vals i = Some TA ->
  (matches FV s (set_nth i e vals) <-> cell_ok s v e /\ matches FV s vals).
Proof.
  induction FV as [|x FV IH]; intros vals i v e Hnd Hi Hl HA.
  - destruct i; discriminate.
  - destruct vals as [|y vals]; [discriminate|]. simpl in Hl.
    destruct i as [|i]; simpl in *.
    + inversion Hi; subst. inversion HA; subst. unfold matches. split.
      * intros H. inversion H as [|? ? ? ? Hc Hr]; subst. split; auto. constructor; simpl; auto.
      * intros [H1 H2]. inversion H2 as [|? ? ? ? Hc Hr]; subst. constructor; auto.
    + inversion Hnd as [|? ? Hnin Hnd']; subst. unfold matches in *. split.
      * intros H. inversion H as [|? ? ? ? Hc Hr]; subst.
        destruct (proj1 (IH vals i v e Hnd' Hi ltac:(lia) HA) Hr) as [Q1 Q2]. split; auto; try (constructor; auto).
      * intros [H1 H2]. inversion H2 as [|? ? ? ? Hc Hr]; subst. constructor; auto; try tauto.
        apply (proj2 (IH vals i v e Hnd' Hi ltac:(lia) HA)). auto.
Qed.

(* Main invariant: D is ordered from lo; all columns of variables >= lo are still Any in vals *)
Definition any_from (FV : list nat) (lo : nat) (vals : list tte) :=
  forall i v, nth_error FV i = Some v -> lo <= v -> nth_error vals i = Some TA.

Lemma set_nth_len {A} i (x : A) l : length (set_nth i x l) = length l.
Proof. revert i; induction l; intros [|i]; simpl; auto. Qed.
Lemma set_nth_other {A} i j (x : A) l : i <> j -> nth_error (set_nth i x l) j = nth_error l j.
Proof. revert i j; induction l; intros [|i] [|j] H; simpl; auto; try congruence. Qed.
Lemma set_nth_id {A} i (x : A) l : nth_error l i = Some x -> set_nth i x l = l.
Proof. revert i; induction l; intros [|i] H; simpl in *; auto; try discriminate; [congruence|f_equal; auto]. Qed.

Lemma NoDup_nth_inj {A} (l : list A) i j x : NoDup l -> nth_error l i = Some x -> nth_error l j = Some x -> i = j.
Proof.
  intros H Hi Hj. rewrite NoDup_nth_error in H. apply H; [apply nth_error_Some; congruence|congruence].
Qed.

Lemma set_nth_same {A} i (x : A) l : i < length l -> nth_error (set_nth i x l) i = Some x.
Proof. revert i; induction l; intros [|i] H; simpl in *; auto; try lia. apply IHl; lia. Qed.

Lemma matches_cell FV s vals i v e : nth_error FV i = Some v -> nth_error vals i = Some e -> matches FV s vals -> cell_ok s v e.
Proof.
  intros Hi Hv Hm. revert i Hi Hv. induction Hm as [|x y FV' vals' Hc Hr IH]; intros [|i] Hi Hv; simpl in *; try discriminate.
  - inversion Hi; inversion Hv; subst; auto.
  - eapply IH; eauto.
Qed.

Theorem tt_partition FV : NoDup FV -> forall d lo vals,
  ord lo d -> (forall v, In v (support d) -> In v FV) ->
  length vals = length FV -> any_from FV lo vals ->
  exists rows, tt_rows FV d vals = Some rows /\
    (forall r, In r rows -> (forall j e, nth_error vals j = Some e -> e <> TA -> nth_error (fst r) j = Some e) /\ length (fst r) = length vals) /\
    forall s, matches FV s vals ->
      exists r, In r rows /\ matches FV s (fst r) /\ snd r = beval s d /\
        forall r', In r' rows -> matches FV s (fst r') -> r' = r.
Proof.
  intros Hnd. induction d as [| |t IHt v f IHf]; intros lo vals Ho Hsup Hlen Hany.
  - exists [(vals, false)]. split; auto. split; [intros r [<-|[]]; simpl; auto|].
    intros s Hm. exists (vals, false). simpl. repeat split; auto.
    intros r' [<-|[]] _; reflexivity.
  - exists [(vals, true)]. split; auto. split; [intros r [<-|[]]; simpl; auto|].
    intros s Hm. exists (vals, true). simpl. repeat split; auto.
    intros r' [<-|[]] _; reflexivity.
  - cbn [ord] in Ho. destruct Ho as (Hv & Hot & Hof).
    destruct (index_of_some v FV) as (i & Hi); [apply Hsup; simpl; auto|].
    destruct (index_of_lt _ _ _ Hi) as [Hilt Hnth].
    assert (HvalA : nth_error vals i = Some TA) by (eapply Hany; eauto).
    assert (Hany' : forall e, any_from FV (S v) (set_nth i e vals)).
    { intros e j w Hj Hw. rewrite set_nth_other; [eapply Hany; eauto; lia|].
      intros ->. rewrite Hnth in Hj. inversion Hj; subst. lia. }
    destruct (IHf (S v) (set_nth i TF vals)) as (r0 & Hr0 & E0 & P0); auto.
    { intros w Hw. apply Hsup. simpl. right. apply in_or_app. auto. }
    { now rewrite set_nth_len. }
    destruct (IHt (S v) (set_nth i TT vals)) as (r1 & Hr1 & E1 & P1); auto.
    { intros w Hw. apply Hsup. simpl. right. apply in_or_app. auto. }
    { now rewrite set_nth_len. }
    exists (r0 ++ r1). split; [simpl; rewrite Hi, Hr0, Hr1; reflexivity|].
    split.
    { intros r Hin. apply in_app_or in Hin. destruct Hin as [Hin|Hin]; [destruct (E0 r Hin) as [Ha Hb]|destruct (E1 r Hin) as [Ha Hb]];
        (split; [|rewrite Hb; apply set_nth_len]); intros j e Hj Hne; apply Ha; auto;
        (rewrite set_nth_other; auto; intros ->; rewrite HvalA in Hj; inversion Hj; subst; congruence). }
    intros s Hm.
    pose proof (matches_set FV s vals i v TT Hnd Hnth Hlen HvalA) as MT.
    pose proof (matches_set FV s vals i v TF Hnd Hnth Hlen HvalA) as MF.
    simpl. destruct (s v) eqn:Esv.
    + destruct (P1 s) as (r & Hin & Hmr & Hres & Huniq); [apply MT; simpl; auto|].
      exists r. split; [apply in_or_app; auto|]. split; auto. split; auto.
      intros r' Hin' Hm'. apply in_app_or in Hin'. destruct Hin' as [Hin'|Hin']; [|apply Huniq; auto].
      exfalso. destruct (E0 r' Hin') as [He _].
      assert (Hri : nth_error (fst r') i = Some TF) by (apply He; [apply set_nth_same; lia|discriminate]).
      pose proof (matches_cell FV s (fst r') i v TF Hnth Hri Hm') as Hc. simpl in Hc. congruence.
    + destruct (P0 s) as (r & Hin & Hmr & Hres & Huniq); [apply MF; simpl; auto|].
      exists r. split; [apply in_or_app; auto|]. split; auto. split; auto.
      intros r' Hin' Hm'. apply in_app_or in Hin'. destruct Hin' as [Hin'|Hin']; [apply Huniq; auto|].
      exfalso. destruct (E1 r' Hin') as [He _].
      assert (Hri : nth_error (fst r') i = Some TT) by (apply He; [apply set_nth_same; lia|discriminate]).
      pose proof (matches_cell FV s (fst r') i v TT Hnth Hri Hm') as Hc. simpl in Hc. congruence.
Qed.
Print Assumptions tt_partition.
