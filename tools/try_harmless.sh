#!/bin/sh
# try_harmless.sh <patch.diff> : apply a behaviour-preserving change to /repo, run ALL quick checks (5 at a time), report the
# ones that alarm, undo
patch="$1"
cd /repo || exit 2
if ! git diff --quiet; then echo "/repo is not clean"; exit 2; fi
git apply "$patch" || { echo "patch does not apply"; exit 2; }
cd /verif
# build once, then the suites of different properties run side by side
./check C03 >/dev/null 2>&1
printf '%s\n' 01 02 03 04 05 06 07 08 09 10 11 12 13 14 15 16 17 18 19 20 | xargs -P 5 -I{} sh -c './check C{} 2>&1 | grep -E "^(VIOLATION|KNOWN)|cannot run" | head -3 | sed "s/^/C{}: /"'
git -C /repo checkout -- . ; git -C /repo clean -fdq
git -C /repo status --short | head -3
echo "done $patch"
