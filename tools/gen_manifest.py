#!/usr/bin/env python3
"""Regenerate MANIFEST.json from lib/vlib/config.py (claimed properties) and properties.jsonl."""
import json, os, sys
ROOT = os.path.dirname(os.path.dirname(os.path.abspath(__file__)))
sys.path.insert(0, os.path.join(ROOT, 'lib'))
from vlib import config

props = [json.loads(l) for l in open(os.path.join(ROOT, 'properties.jsonl'))]
checks, na = [], []
for p in props:
    pid = p['id']
    c = config.PROPS.get(pid)
    if c is None or c.get('unclaimed'):
        na.append({'property_id': pid, 'reason': config.NOT_CLAIMED.get(pid, 'check not built yet (the theorems exist in coq/theories/Props/%s.v; the correspondence suite that ties them to the code is still missing)' % pid)})
        continue
    checks.append({
        'property_id': pid,
        'quick_cmd': './check %s --tier quick' % pid,
        'thorough_cmd': './check %s --tier thorough' % pid,
        'evidence_file': '/verif/evidence/%s.json' % pid,
        'replay_cmd_template': './check %s --replay {path}' % pid,
        'engine': 'coq-proof+correspondence',
        'level_claimed': {'category': 'proof', 'text': c['level_text'], 'design_ref': 'DESIGN.md §6 ' + pid},
        'level_note': c['level_note'],
        'technique': c.get('technique', 'Rocq (Coq 8.16) theorems about a hand-written Gallina model, tied to the code by a differential correspondence check of the extracted model against the implementation'),
    })
m = {
    'version': 1,
    'setup_cmd': './setup.sh',
    'hooks': {
        'guard': 'rsbdd_verif',
        'enable': 'RUSTFLAGS="--cfg rsbdd_verif" (set by ./check and ./setup.sh for every cargo build of /repo)',
        'baseline_off_cmd': 'cd /repo && cargo test --workspace --no-fail-fast --offline',
        'source_commits': config.HOOK_COMMITS,
        'add_only': True,
    },
    'engines': [{
        'name': 'coq-proof+correspondence',
        'path': '/verif/check',
        'serves_properties': [c['property_id'] for c in checks],
        'kind_free_text': 'Coq 8.16.1 development in /verif/coq (model, theorems, executable checkers), extracted to OCaml; Rust harness in /verif/harness runs the implementation from /repo on the same inputs; python driver /verif/check compares and searches for failing inputs; for the tokenizer tables, 32 functions of src/bdd.rs, var_is_free, replace_var, eval_recursive, the loop of fp, five operations of src/set.rs and the loop nests of two generators a translator (lib/vlib/src*.py) regenerates Gallina from the current source and coqc re-proves its equality with the model on every run',
    }],
    'checks': checks,
    'notes': 'Every check rebuilds Props/<id>.vo through make (full .vo), parses Print Assumptions for every theorem, scans the sources for Admitted/Axiom/…, rebuilds the harness against /repo\'s working tree and runs the suites of the property\'s cone; where a translator applies (C01 - C09, C15, C17, C19, C20) it first regenerates the obligations about the source as it is now (DESIGN.md 15.7b - 15.7h). See DESIGN.md.',
    'not_applicable': na,
}
json.dump(m, open(os.path.join(ROOT, 'MANIFEST.json'), 'w'), indent=1)
print('claimed', len(checks), 'unclaimed', len(na))
