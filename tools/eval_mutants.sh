#!/bin/bash
# eval_mutants.sh : every mutant that survives the repository's own tests (/tmp/mut/survivors/*.diff) is applied to /repo and the
# quick checks of the properties that depend on the mutated file are run (side by side); appends to /tmp/mut/eval.log
cd /verif
touch /tmp/mut/eval.log
for d in $(cat /tmp/mut/order.txt); do
  b=$(basename $d)
  grep -q "^$b " /tmp/mut/eval.log && continue
  f=$(grep -m1 '^+++ b/' $d | cut -c7-)
  case "$f" in
    src/bdd.rs) props="C02 C03 C04 C05 C06 C07 C20 C13";;
    src/parser.rs) props="C01 C08 C09 C05 C06 C12";;
    src/set.rs) props="C19";;
    src/bdd_io.rs|src/parser_io.rs) props="C14 C12";;
    src/truth_table.rs) props="C10 C20";;
    src/symbols.rs) props="C02 C11 C14";;
    src/bin/rsbdd.rs) props="C10 C11 C12 C07 C20";;
    n_queens_gen/*) props="C15";;
    sudoku_gen/*) props="C17";;
    max_clique_gen/*) props="C16";;
    random_graph_gen/*) props="C18";;
    *) props="C01";;
  esac
  if ! git -C /repo diff --quiet; then echo "/repo not clean"; exit 2; fi
  git -C /repo apply $d || { echo "$b does-not-apply" >> /tmp/mut/eval.log; continue; }
  first=$(echo $props | cut -d' ' -f1)
  # the first check also builds; the others then run side by side
  hit=$( (timeout 1200 ./check $first 2>&1 | grep -E "^VIOLATION" | head -2 | sed "s/^/$first /") )
  res=""
  if [ -n "$hit" ]; then
    if echo "$hit" | grep -qv "no-failing-input-found"; then res="$first"; else res="$first(nfi)"; fi
  fi
  case "$res" in
    *"(nfi)"|"")
      rest=$(echo $props | cut -d' ' -f2- -s)
      if [ -n "$rest" ]; then
        more=$(printf '%s\n' $rest | xargs -P 6 -I{} sh -c 'r=$(timeout 1200 ./check {} 2>&1 | grep -E "^VIOLATION" | head -2); if [ -n "$r" ]; then if echo "$r" | grep -qv no-failing-input-found; then echo -n "{} "; else echo -n "{}(nfi) "; fi; fi')
        res="$res $more"
      fi;;
  esac
  git -C /repo checkout -- . ; git -C /repo clean -fdq
  res=$(echo $res)
  echo "$b $f ${res:-NOT-DETECTED} | $(grep '^-[^-]' $d | head -1 | cut -c1-90) => $(grep '^+[^+]' $d | head -1 | cut -c1-90)" >> /tmp/mut/eval.log
done
echo finished >> /tmp/mut/eval.log
