#!/bin/sh
# try_seed.sh <patch.diff> <property>... : apply a seeded change to /repo, run the given checks, undo it
patch="$1"; shift
cd /repo || exit 2
if ! git diff --quiet; then echo "/repo is not clean"; exit 2; fi
git apply "$patch" || { echo "patch does not apply"; exit 2; }
cd /verif
for p in "$@"; do
  out=$(./check "$p" 2>&1 | grep -E "^(VIOLATION|OK|KNOWN)|cannot run" | head -3)
  echo "$p: $out"
done
git -C /repo checkout -- . ; git -C /repo clean -fdq
git -C /repo status --short | head -3
