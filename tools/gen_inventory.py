#!/usr/bin/env python3
"""gen_inventory.py : regenerate the theorem inventory table of DESIGN.md section 15.9 from coq/theories/Props/*.v"""
import re, glob, os, subprocess
root = '/verif'
rows = []
for f in sorted(glob.glob(root + '/coq/theories/Props/C*.v')):
    pid = os.path.basename(f)[:-2]
    src = open(f).read()
    th = re.findall(r'^(?:Theorem|Corollary)\s+(\w+)', src, re.M)
    ex = re.findall(r'^Example\s+(\w+)', src, re.M)
    rows.append('| %s | %s | %s |' % (pid, ', '.join('`%s`' % t for t in th), ', '.join('`%s`' % e for e in ex)))
files = glob.glob(root + '/coq/theories/*/*.v')
lines = sum(len(open(f).read().split('\n')) for f in files)
table = '| id | theorems | examples |\n|---|---|---|\n' + '\n'.join(rows) + '\n\nDevelopment size: %d files, %d lines of Coq under coq/theories (model, specifications, proofs, checkers).\n' % (len(files), lines)
d = open(root + '/DESIGN.md').read()
a = d.index('| id | theorems | examples |')
b = d.index('Development size:', a)
b = d.index('\n', b) + 1
open(root + '/DESIGN.md', 'w').write(d[:a] + table + d[b:])
print(table)
