#!/usr/bin/env python3
"""mutate.py gen|survive : small syntactic mutants of /repo's sources.
gen      : enumerate mutants (file, line, old -> new) into /tmp/mut/mutants.json
survive  : for each mutant, apply it in the scratch worktree /tmp/mut/wt, build, run the 31 existing tests; keep the ones
           that compile and pass (the interesting ones: the repository's own tests do not see them) as /tmp/mut/survivors/<n>.diff
"""
import re, sys, os, json, subprocess, random
WT = '/tmp/mut/wt'
FILES = ['src/bdd.rs', 'src/parser.rs', 'src/set.rs', 'src/bdd_io.rs', 'src/parser_io.rs', 'src/truth_table.rs', 'src/symbols.rs', 'src/bin/rsbdd.rs',
         'n_queens_gen/src/main.rs', 'sudoku_gen/src/main.rs', 'max_clique_gen/src/main.rs', 'random_graph_gen/src/main.rs']
OPS = [
    (r'(?<![<>=!\-])<(?![<=>])', '<='), (r'(?<![<>=!])<=(?!>)', '<'), (r'(?<![<>=!\-])>(?![>=])', '>='), (r'(?<![<>=!])>=', '>'),
    (r'==', '!='), (r'!=', '=='), (r'\+ 1\b', '- 1'), (r'- 1\b', '+ 1'), (r'\+ 1\b', ''), (r'- 1\b', ''),
    (r'\btrue\b', 'false'), (r'\bfalse\b', 'true'), (r'&&', '||'), (r'\|\|', '&&'),
    (r'\.is_true\(\)', '.is_false()'), (r'\.is_false\(\)', '.is_true()'), (r'\bmk_const\(true\)', 'mk_const(false)'), (r'\bmk_const\(false\)', 'mk_const(true)'),
    (r'Rc::clone\(t\)', 'Rc::clone(f)'), (r'Rc::clone\(at\)', 'Rc::clone(af)'), (r'Rc::clone\(bt\)', 'Rc::clone(bf)'),
    (r'\bn - 1\b', 'n'), (r'\bn \+ 1\b', 'n'), (r'\.rev\(\)', ''), (r'\bi \+ 1\b', 'i'), (r'\bva < vb\b', 'vb < va'),
]

def gen():
    muts = []
    for f in FILES:
        path = os.path.join(WT, f)
        lines = open(path).read().split('\n')
        in_test = False
        for ln, line in enumerate(lines):
            code = line.split('//')[0]
            if '#[cfg(test)]' in code:
                in_test = True
            if in_test or code.strip().startswith(('#[', 'use ', '///', '//')) or 'cfg(rsbdd_verif)' in code or 'verif_' in code:
                continue
            # skip generic / type contexts for < >
            for pat, rep in OPS:
                for m in re.finditer(pat, code):
                    if pat.startswith(r'(?<![<>=!\-])<') or pat.startswith(r'(?<![<>=!\-])>'):
                        ctx = code[max(0, m.start() - 25):m.end() + 25]
                        if re.search(r'(Rc|Vec|Option|Result|RefCell|HashMap|FxHashMap|BDD|BDDEnv|impl|fn |Box|Peekable|Iter|dyn |&\'|->|=>|::<|\bS\b|<S|<T|<W)', ctx):
                            continue
                    new = code[:m.start()] + rep + code[m.end():] + line[len(code):]
                    if new != line:
                        muts.append(dict(file=f, line=ln, old=line, new=new, op='%s -> %s' % (pat, rep)))
    random.Random(7).shuffle(muts)
    json.dump(muts, open('/tmp/mut/mutants.json', 'w'), indent=0)
    print(len(muts), 'mutants')

def sh(cmd, timeout=900):
    env = dict(os.environ, CARGO_TARGET_DIR='/tmp/mut/target', CARGO_NET_OFFLINE='true', RUST_BACKTRACE='0')
    try:
        p = subprocess.run(cmd, cwd=WT, env=env, stdout=subprocess.PIPE, stderr=subprocess.STDOUT, timeout=timeout)
        return p.returncode, p.stdout.decode('utf-8', 'replace')
    except subprocess.TimeoutExpired:
        return 124, 'timeout'

def survive(limit):
    muts = json.load(open('/tmp/mut/mutants.json'))
    os.makedirs('/tmp/mut/survivors', exist_ok=True)
    log = open('/tmp/mut/survive.log', 'a')
    done = 0
    for k, m in enumerate(muts[:limit]):
        if os.path.exists('/tmp/mut/survivors/%d.diff' % k) or os.path.exists('/tmp/mut/killed/%d' % k):
            continue
        subprocess.run(['git', 'checkout', '--', '.'], cwd=WT)
        path = os.path.join(WT, m['file'])
        lines = open(path).read().split('\n')
        if lines[m['line']] != m['old']:
            continue
        lines[m['line']] = m['new']
        open(path, 'w').write('\n'.join(lines))
        rc, out = sh(['cargo', 'build', '--workspace', '--offline', '-q'])
        status = 'nocompile'
        if rc == 0:
            rc, out = sh(['cargo', 'test', '--workspace', '--offline', '-q'], timeout=1200)
            status = 'killed-by-tests' if rc != 0 else 'survived'
        if status == 'survived':
            d = subprocess.run(['git', 'diff'], cwd=WT, stdout=subprocess.PIPE).stdout.decode()
            open('/tmp/mut/survivors/%d.diff' % k, 'w').write(d)
        else:
            os.makedirs('/tmp/mut/killed', exist_ok=True)
            open('/tmp/mut/killed/%d' % k, 'w').write(status)
        log.write('%d\t%s\t%s:%d\t%s\n' % (k, status, m['file'], m['line'] + 1, m['op']))
        log.flush()
        done += 1
    subprocess.run(['git', 'checkout', '--', '.'], cwd=WT)

if __name__ == '__main__':
    if sys.argv[1] == 'gen':
        gen()
    else:
        survive(int(sys.argv[2]) if len(sys.argv) > 2 else 10**9)
