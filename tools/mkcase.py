#!/usr/bin/env python3
"""mkcase.py <tok|parse|eval> <text> : print a corpus line for the text suites (non-ASCII: give class by hand as U+XXXX:w|d|o is not supported; digits of other scripts are tagged d, letters w)"""
import sys, unicodedata
op, text = sys.argv[1], sys.argv[2]
def cp(c):
    n = ord(c)
    if n < 128: return str(n)
    cat = unicodedata.category(c)
    tag = 'd' if cat == 'Nd' else ('w' if (cat[0] in 'LM' or cat in ('Nl', 'Pc')) else 'o')
    return '%d:%s' % (n, tag)
t = '(' + ' '.join(cp(c) for c in text) + ')'
print('%s\t%s' % (op, '(%s)' % t if op == 'parse' else '(() %s)' % t))
