#!/bin/bash
# seed_matrix.sh : apply every kept seeded change to /repo in turn, run the quick check of its property, undo it.
# Writes seeded/RESULTS.md.  /repo must be clean and nothing else may use /repo or ./check meanwhile.
cd /verif
out=${MATRIX_OUT:-seeded/RESULTS.md}
echo "# Seeded changes vs the quick check of their property (tools/seed_matrix.sh, $(date -u +%FT%TZ))" > $out
echo >> $out
echo "| seed | check | result |" >> $out
echo "|---|---|---|" >> $out
for d in seeded/C*-*/; do
  name=$(basename $d); prop=${name%%-*}
  # MATRIX_ONLY / MATRIX_SKIP: extended regular expressions on the seed name (e.g. MATRIX_SKIP='^C1[57]-')
  if [ -n "$MATRIX_ONLY" ] && ! echo "$name" | grep -Eq "$MATRIX_ONLY"; then continue; fi
  if [ -n "$MATRIX_SKIP" ] && echo "$name" | grep -Eq "$MATRIX_SKIP"; then continue; fi
  if ! git -C /repo diff --quiet; then echo "/repo not clean"; exit 2; fi
  git -C /repo apply /verif/$d/patch.diff || { echo "| $name | $prop | patch does not apply |" >> $out; continue; }
  r=$(timeout 1200 ./check $prop 2>&1 | grep -E "^(VIOLATION|OK)|cannot run")
  git -C /repo checkout -- . ; git -C /repo clean -fdq
  if echo "$r" | grep "^VIOLATION" | grep -qv "no-failing-input-found"; then res="VIOLATION with failing input"
  elif echo "$r" | grep -q "^VIOLATION"; then res="VIOLATION (no-failing-input-found)"
  elif echo "$r" | grep -q "^OK"; then res="**not detected**"
  else res="$(echo "$r" | head -1)"; fi
  echo "| $name | $prop | $res |" >> $out
done
echo >> $out
echo "Unchanged tree afterwards:" >> $out
if [ -z "$MATRIX_NO_FINAL" ]; then for p in $(seq -w 1 20); do timeout 900 ./check C$p | tail -1 >> $out; done; fi
