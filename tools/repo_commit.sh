#!/bin/sh
# run the repository's test suite on the working tree and commit with the given message if it passes
set -e
cd /repo
export CARGO_TARGET_DIR=/verif/_build/target-test RUST_BACKTRACE=0 CARGO_NET_OFFLINE=true
out=$(cargo test --workspace --no-fail-fast --offline 2>&1 | grep -E "^test result" | awk '{p+=$4; f+=$6} END {print p" passed "f" failed"}')
echo "$out"
case "$out" in "31 passed 0 failed") git commit -qam "$1" && git log --oneline | head -1;; *) echo "NOT COMMITTED"; exit 1;; esac
