#!/bin/sh
# like try_seed.sh, for round-2 seeds under /tmp/seed2
exec /verif/tools/try_seed.sh "$@"
