#!/bin/bash
# confirm_seed.sh <propid> <A|B> : in the scratch worktree /tmp/seed/<propid>: the change applies, the 31 existing tests
# pass with it, the demonstration fails with it and passes without it.  Prints one summary line.
id="$1"; v="$2"; root="${SEEDROOT:-/tmp/seed}"; wt=$root/$id; out=$root/$id.out
export CARGO_TARGET_DIR=$wt/target RUST_BACKTRACE=0 CARGO_NET_OFFLINE=true
cd $wt || exit 2
git checkout -q -- . ; rm -f tests/zz_seed_demo.rs
git apply $out/$v.diff || { echo "$id $v: patch does not apply"; exit 1; }
suite=$(cargo test --workspace --no-fail-fast --offline 2>&1 | grep -E "^test result" | awk '{p+=$4; f+=$6} END {print p"/"f}')
if [ -f $out/${v}_demo.rs ]; then
  cp $out/${v}_demo.rs tests/zz_seed_demo.rs
  with=$(cargo test --offline --test zz_seed_demo 2>&1 | grep -E "^test result" | awk '{print $4"p/"$6"f"}')
  git checkout -q -- . 
  without=$(cargo test --offline --test zz_seed_demo 2>&1 | grep -E "^test result" | awk '{print $4"p/"$6"f"}')
  rm -f tests/zz_seed_demo.rs
else
  cargo build --offline -q --workspace --bins 2>/dev/null
  (cd $wt && BIN=$wt/target/debug bash $out/${v}_demo.sh >/dev/null 2>&1); with="exit$?"
  git checkout -q -- . ; cargo build --offline -q --workspace --bins 2>/dev/null
  (cd $wt && BIN=$wt/target/debug bash $out/${v}_demo.sh >/dev/null 2>&1); without="exit$?"
fi
git checkout -q -- .
echo "$id $v: existing-tests(pass/fail)=$suite demo-with-change=$with demo-without=$without"
