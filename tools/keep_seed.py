#!/usr/bin/env python3
"""keep_seed.py <prop> <A|B> <needs> <confirm-line> <check-result> : store a confirmed seeded change under /verif/seeded/"""
import sys, os, shutil, json, glob
pid, v, needs, confirm, result = sys.argv[1:6]
root = os.environ.get('SEEDROOT', '/tmp/seed')
src = '%s/%s.out' % (root, pid)
name = os.environ.get('SEEDNAME', v)
dst = '/verif/seeded/%s-%s' % (pid, name)
os.makedirs(dst, exist_ok=True)
shutil.copy(os.path.join(src, v + '.diff'), os.path.join(dst, 'patch.diff'))
for f in glob.glob(os.path.join(src, v + '_demo.*')):
    shutil.copy(f, os.path.join(dst, 'demo' + os.path.splitext(f)[1]))
if os.path.exists(os.path.join(src, 'notes.md')):
    shutil.copy(os.path.join(src, 'notes.md'), os.path.join(dst, 'notes.md'))
meta = {
    'property': pid, 'variant': name, 'round': 2 if root != '/tmp/seed' else 1,
    'needs_to_manifest': needs,
    'confirmed_in_scratch_worktree': confirm,
    'what_i_ran': ['tools/confirm_seed.sh %s %s   (apply in the scratch worktree of %s, cargo test --workspace: 31 pass; demo fails with the change, passes without)' % (pid, v, pid),
                   'tools/try_seed.sh seeded/%s-%s/patch.diff %s   (git -C /repo apply; ./check; git -C /repo checkout -- .)' % (pid, name, pid)],
    'check_result': result,
    'origin': 'written by a sub-agent that saw only the property text and its own scratch worktree of /repo',
}
json.dump(meta, open(os.path.join(dst, 'meta.json'), 'w'), indent=1)
print(dst)
