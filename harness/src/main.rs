#![allow(dead_code)]
//! rsbdd-corr: the implementation side of the correspondence suites (DESIGN.md §4).
//! Every suite prints one case per line:  op \t args \t real-result
//! The OCaml driver (extracted Coq model) recomputes the result from `op args` and compares.
mod sbdd;
mod scli;
mod sdot;
mod sgen;
mod shist;
mod sset;
mod stext;
mod sx;

use std::io::Write;

pub struct Opts {
    pub thorough: bool,
    pub seed: u64,
    pub parts: Vec<String>,
    pub bindir: String,
    pub extra: Vec<String>,
}

pub struct Out {
    w: std::io::BufWriter<std::io::Stdout>,
    pub cases: u64,
}
impl Out {
    pub fn emit(&mut self, op: &str, args: &str, real: &str) {
        self.cases += 1;
        let _ = writeln!(self.w, "{op}\t{args}\t{real}");
    }
    /// record the case that is about to run (for cases that may take the whole process down: stack overflow, allocation failure)
    pub fn starting(op: &str, args: &str) {
        if let Ok(path) = std::env::var("VERIF_LASTFILE") {
            let _ = std::fs::write(path, format!("{op}\t{args}"));
        }
    }
    pub fn comment(&mut self, s: &str) {
        let _ = writeln!(self.w, "# {s}");
    }
}

fn main() {
    // panics of the code under test are caught and reported as `(panic)`; keep stderr quiet
    std::panic::set_hook(Box::new(|_| {}));
    let args: Vec<String> = std::env::args().collect();
    if args.len() < 2 {
        eprintln!("usage: rsbdd-corr <suite> [--tier quick|thorough] [--seed N] [--parts a,b] [--bindir DIR] [extra…]");
        std::process::exit(2);
    }
    let suite = args[1].clone();
    let mut o = Opts { thorough: false, seed: 1, parts: vec![], bindir: String::new(), extra: vec![] };
    let mut i = 2;
    while i < args.len() {
        match args[i].as_str() {
            "--tier" => {
                o.thorough = args[i + 1] == "thorough";
                i += 2;
            }
            "--seed" => {
                o.seed = args[i + 1].parse().unwrap_or(1);
                i += 2;
            }
            "--parts" => {
                o.parts = args[i + 1].split(',').map(|s| s.to_string()).collect();
                i += 2;
            }
            "--bindir" => {
                o.bindir = args[i + 1].clone();
                i += 2;
            }
            _ => {
                o.extra.push(args[i].clone());
                i += 1;
            }
        }
    }
    let mut out = Out { w: std::io::BufWriter::with_capacity(1 << 20, std::io::stdout()), cases: 0 };
    match suite.as_str() {
        "bdd" => sbdd::main(&mut out, &o),
        "text" => stext::main(&mut out, &o),
        "cli" => scli::main(&mut out, &o),
        "set" => sset::main(&mut out, &o),
        "hist" => shist::main(&mut out, &o),
        "dot" => sdot::main(&mut out, &o),
        "gen" => sgen::main(&mut out, &o),
        "replay" => {
            // re-run case lines given on stdin (op \t args [\t old-real]) against the current implementation
            let stdin = std::io::stdin();
            let mut line = String::new();
            loop {
                line.clear();
                if std::io::BufRead::read_line(&mut stdin.lock(), &mut line).unwrap_or(0) == 0 {
                    break;
                }
                let l = line.trim_end_matches('\n');
                if l.is_empty() || l.starts_with('#') {
                    continue;
                }
                let f: Vec<&str> = l.split('\t').collect();
                if f.len() < 2 {
                    continue;
                }
                let real = replay_one(f[0], f[1], &o);
                out.emit(f[0], f[1], &real);
            }
        }
        _ => {
            eprintln!("unknown suite {suite}");
            std::process::exit(2);
        }
    }
    let _ = out.w.flush();
}

fn replay_one(op: &str, args: &str, o: &Opts) -> String {
    match op {
        "run" => match sx::parse(args) {
            Ok(x) => sbdd::run_case(&rsbdd::bdd::BDDEnv::new(), &x),
            Err(e) => format!("(harness-error {e})"),
        },
        "tok" | "parse" | "eval" | "sym" | "tte" | "evalx" | "evalid" => match sx::parse(args) {
            Ok(x) => stext::replay(op, &x),
            Err(e) => format!("(harness-error {e})"),
        },
        "queens" | "queensbig" | "queenshuge" | "queenssols" | "sudoku" | "clique" | "cliquemodels" => match sx::parse(args) {
            Ok(x) => sgen::replay(op, &x, &o.bindir),
            Err(e) => format!("(harness-error {e})"),
        },
        "dotbdd" | "dotnamed" | "dottree" => match sx::parse(args) {
            Ok(x) => sdot::replay(op, &x),
            Err(e) => format!("(harness-error {e})"),
        },
        "hist" | "heap" | "histf" => match sx::parse(args) {
            Ok(x) => shist::replay(op, &x),
            Err(e) => format!("(harness-error {e})"),
        },
        "set" | "setw" | "set2" => match sx::parse(args) {
            Ok(x) => sset::replay(&x),
            Err(e) => format!("(harness-error {e})"),
        },
        "cli" | "robust" => match sx::parse(args) {
            Ok(x) => scli::replay(op, &x, &o.bindir),
            Err(e) => format!("(harness-error {e})"),
        },
        _ => "(harness-unknown-op)".into(),
    }
}
