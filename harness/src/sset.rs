//! Suite S-set: BDDSet (src/set.rs) against the state machine of Sets/BddSet.v.
use crate::sx::{Rng, Sx};
use crate::{Opts, Out};
use rsbdd::bdd::BDDEnv;
use rsbdd::set::BDDSet;
use std::collections::{HashMap, VecDeque};
use std::panic::{catch_unwind, AssertUnwindSafe};
use std::rc::Rc;

#[derive(Clone, Copy, Debug, PartialEq, Eq, Hash)]
pub enum Op {
    Ins(u8, usize),
    Uni(u8, u8),
    Int(u8, u8),
    Cmp(u8, u8),
    Emp(u8),
    Univ(u8),
    Has(u8, usize),
}

fn op_sx(o: &Op) -> Sx {
    match *o {
        Op::Ins(i, e) => Sx::op("ins", vec![Sx::n(i), Sx::n(e)]),
        Op::Uni(i, j) => Sx::op("uni", vec![Sx::n(i), Sx::n(j)]),
        Op::Int(i, j) => Sx::op("int", vec![Sx::n(i), Sx::n(j)]),
        Op::Cmp(i, j) => Sx::op("cmp", vec![Sx::n(i), Sx::n(j)]),
        Op::Emp(i) => Sx::op("emp", vec![Sx::n(i)]),
        Op::Univ(i) => Sx::op("univ", vec![Sx::n(i)]),
        Op::Has(i, e) => Sx::op("has", vec![Sx::n(i), Sx::n(e)]),
    }
}
fn sx_op(x: &Sx) -> Option<Op> {
    let l = x.list()?;
    let n = |k: usize| l.get(k)?.atom()?.parse::<usize>().ok();
    Some(match l[0].atom()? {
        "ins" => Op::Ins(n(1)? as u8, n(2)?),
        "uni" => Op::Uni(n(1)? as u8, n(2)? as u8),
        "int" => Op::Int(n(1)? as u8, n(2)? as u8),
        "cmp" => Op::Cmp(n(1)? as u8, n(2)? as u8),
        "emp" => Op::Emp(n(1)? as u8),
        "univ" => Op::Univ(n(1)? as u8),
        "has" => Op::Has(n(1)? as u8, n(2)?),
        _ => return None,
    })
}

/// reference state: two bit masks
fn ref_step(st: (u64, u64), o: &Op, bits: usize) -> (u64, u64) {
    let all: u64 = if bits >= 6 { u64::MAX } else { (1u64 << (1 << bits)) - 1 };
    let get = |i: u8| if i == 0 { st.0 } else { st.1 };
    let put = |i: u8, v: u64| if i == 0 { (v, st.1) } else { (st.0, v) };
    match *o {
        Op::Ins(i, e) => put(i, get(i) | (1 << e)),
        Op::Uni(i, j) => put(i, get(i) | get(j)),
        Op::Int(i, j) => put(i, get(i) & get(j)),
        Op::Cmp(i, j) => put(i, get(i) & !get(j) & all),
        Op::Emp(i) => put(i, 0),
        Op::Univ(i) => put(i, all),
        Op::Has(_, _) => st,
    }
}

pub fn real_run(bits: usize, ops: &[Op]) -> String {
    real_run2(bits, bits, ops)
}

/// two sets, possibly of different widths, in one environment
pub fn real_run2(bits0: usize, bits1: usize, ops: &[Op]) -> String {
    let r = catch_unwind(AssertUnwindSafe(|| {
        let env = Rc::new(BDDEnv::new());
        let s = [BDDSet::with_env(bits0, &env), BDDSet::with_env(bits1, &env)];
        let mut answers = vec![];
        for o in ops {
            match *o {
                Op::Ins(i, e) => {
                    s[i as usize].insert(e);
                }
                Op::Uni(i, j) => {
                    s[i as usize].union(&s[j as usize]);
                }
                Op::Int(i, j) => {
                    s[i as usize].intersect(&s[j as usize]);
                }
                Op::Cmp(i, j) => {
                    s[i as usize].complement(&s[j as usize]);
                }
                Op::Emp(i) => {
                    s[i as usize].empty();
                }
                Op::Univ(i) => {
                    s[i as usize].universe();
                }
                Op::Has(i, e) => answers.push(if s[i as usize].contains(e) { "1" } else { "0" }),
            }
        }
        let b0 = crate::sbdd::bdd_str(&s[0].bdd.borrow());
        let b1 = crate::sbdd::bdd_str(&s[1].bdd.borrow());
        // both sets' diagrams are the environment's own shared nodes (C13)
        let handles = vec![s[0].bdd.borrow().clone(), s[1].bdd.borrow().clone()];
        if let Some(e) = crate::shist::check_env_gen(&env, &handles, &|v: &usize| *v) {
            return format!("(env-invariant {e})");
        }
        format!("(ok ({}) {} {})", answers.join(" "), b0, b1)
    }));
    r.unwrap_or_else(|_| "(panic)".into())
}

fn emit(out: &mut Out, bits: usize, ops: &[Op]) {
    let args = Sx::l(vec![Sx::n(bits), Sx::l(ops.iter().map(op_sx).collect())]);
    out.emit("set", &args.show(), &real_run(bits, ops));
}

fn emit_w(out: &mut Out, bits: usize, ops: &[Op]) {
    let args = Sx::l(vec![Sx::n(bits), Sx::l(ops.iter().map(op_sx).collect())]);
    out.emit("setw", &args.show(), &real_run(bits, ops));
}
fn emit_2(out: &mut Out, b0: usize, b1: usize, ops: &[Op]) {
    let args = Sx::l(vec![Sx::l(vec![Sx::n(b0), Sx::n(b1)]), Sx::l(ops.iter().map(op_sx).collect())]);
    out.emit("set2", &args.show(), &real_run2(b0, b1, ops));
}

/// wide sets (up to 64 bits) with elements that agree on their low 8 / 16 / 32 / 56 bits, and two sets of different
/// widths sharing one environment (each used on its own)
fn part_wide(out: &mut Out, o: &Opts) {
    let mut rng = Rng::new(o.seed ^ 0x5d);
    let mask = |bits: usize| if bits >= 64 { usize::MAX } else { (1usize << bits) - 1 };
    for bits in [7usize, 8, 9, 15, 16, 17, 31, 32, 33, 55, 56, 57, 58, 63, 64] {
        let m = mask(bits);
        let reps = if o.thorough { 40 } else { 6 };
        for _ in 0..reps {
            let base = (rng.next() as usize) & m & 0xffff;
            // elements that differ from base only above bit 8, 16, 32, 56, or in the top bit
            let mut elems = vec![base, base ^ 1, 0, m];
            for sh in [8usize, 16, 32, 56] {
                if sh < bits {
                    elems.push((base | (1 << sh)) & m);
                    elems.push((base | ((rng.next() as usize) << sh)) & m);
                }
            }
            elems.push((base | (1 << (bits - 1))) & m);
            elems.sort();
            elems.dedup();
            let mut seq = vec![];
            let k = 1 + rng.below(3) as usize;
            for _ in 0..k {
                seq.push(Op::Ins(0, *rng.pick(&elems)));
            }
            seq.push(Op::Ins(1, *rng.pick(&elems)));
            for e in &elems {
                seq.push(Op::Has(0, *e));
                seq.push(Op::Has(1, *e));
            }
            match rng.below(4) {
                0 => seq.push(Op::Uni(0, 1)),
                1 => seq.push(Op::Int(0, 1)),
                2 => seq.push(Op::Cmp(0, 1)),
                _ => {
                    seq.push(Op::Univ(1));
                    seq.push(Op::Cmp(1, 0));
                }
            }
            for e in &elems {
                seq.push(Op::Has(0, *e));
                seq.push(Op::Has(1, *e));
            }
            emit_w(out, bits, &seq);
        }
    }
    // two widths in one environment, narrow first and wide first
    let n = if o.thorough { 2_000 } else { 200 };
    for k in 0..n {
        let (b0, b1) = *rng.pick(&[(3usize, 5usize), (5, 3), (2, 16), (16, 2), (1, 64), (64, 1), (8, 9), (4, 4), (1, 2), (6, 33)]);
        let (m0, m1) = (mask(b0), mask(b1));
        let mut seq = vec![];
        let len = 2 + rng.below(10);
        // which set speaks first is part of the history
        let first = (k % 2) as u8;
        seq.push(Op::Ins(first, 1 & if first == 0 { m0 } else { m1 }));
        for _ in 0..len {
            let i = rng.below(2) as u8;
            let m = if i == 0 { m0 } else { m1 };
            let e = match rng.below(3) {
                0 => rng.below(8) as usize & m,
                1 => (1usize | ((rng.next() as usize) << 3)) & m,
                _ => (rng.next() as usize) & m,
            };
            seq.push(match rng.below(8) {
                0 | 1 | 2 => Op::Ins(i, e),
                3 => Op::Emp(i),
                4 => Op::Univ(i),
                _ => Op::Has(i, e),
            });
        }
        for i in 0..2u8 {
            let m = if i == 0 { m0 } else { m1 };
            for e in [0usize, 1, 9 & m, 17 & m, 25 & m, m, m >> 1] {
                seq.push(Op::Has(i, e));
            }
        }
        emit_2(out, b0, b1, &seq);
    }
}

fn all_ops(bits: usize) -> Vec<Op> {
    let mut v = vec![];
    for i in 0..2u8 {
        for e in 0..(1usize << bits) {
            v.push(Op::Ins(i, e));
            v.push(Op::Has(i, e));
        }
        for j in 0..2u8 {
            v.push(Op::Uni(i, j));
            v.push(Op::Int(i, j));
            v.push(Op::Cmp(i, j));
        }
        v.push(Op::Emp(i));
        v.push(Op::Univ(i));
    }
    v
}

pub fn main(out: &mut Out, o: &Opts) {
    part_wide(out, o);
    // complete BFS over all reachable pairs of reference states, bits = 2
    let bits = 2usize;
    let ops = all_ops(bits);
    let mut path: HashMap<(u64, u64), Vec<Op>> = HashMap::new();
    let mut q = VecDeque::new();
    path.insert((0, 0), vec![]);
    q.push_back((0u64, 0u64));
    while let Some(st) = q.pop_front() {
        let p = path[&st].clone();
        for op in &ops {
            let nx = ref_step(st, op, bits);
            if !path.contains_key(&nx) {
                let mut np = p.clone();
                np.push(*op);
                path.insert(nx, np);
                q.push_back(nx);
            }
        }
    }
    let mut states: Vec<&(u64, u64)> = path.keys().collect();
    states.sort();
    out.comment(&format!("S-set: {} reachable reference state pairs, {} next operations", states.len(), ops.len()));
    let queries: Vec<Op> = (0..2u8).flat_map(|i| (0..(1usize << bits)).map(move |e| Op::Has(i, e))).collect();
    for st in states {
        for op in &ops {
            let mut seq = path[st].clone();
            seq.push(*op);
            seq.extend(queries.iter().cloned());
            // queries twice: a query must not change later answers
            seq.extend(queries.iter().cloned());
            emit(out, bits, &seq);
        }
    }
    // one big environment: a 16-bit universe filled until the unique table holds tens of thousands of nodes,
    // then the operations that reset a set, and queries (state that only shows at scale)
    {
        let bits = 16usize;
        let mut rng = Rng::new(o.seed ^ 0x5f);
        let rounds = if o.thorough { 10 } else { 6 };
        for variant in 0..3 {
            let mut seq = vec![];
            // rounds of inserts, a complement against the universe and an intersection: every round leaves
            // thousands of new nodes in the table (about 80 000 after six rounds)
            for _ in 0..rounds {
                for _ in 0..700 {
                    seq.push(Op::Ins(0, rng.below(4096) as usize));
                }
                seq.push(Op::Univ(1));
                seq.push(Op::Cmp(1, 0));
                for _ in 0..300 {
                    seq.push(Op::Ins(1, rng.below(4096) as usize));
                }
                seq.push(Op::Int(0, 1));
            }
            match variant {
                0 => {
                    // both sets become the same constant: nothing but the sets' own handles refers to the other leaf
                    seq.push(Op::Emp(1));
                    seq.push(Op::Emp(0));
                    seq.push(Op::Ins(0, 5));
                    seq.push(Op::Univ(1));
                }
                1 => {
                    seq.push(Op::Univ(0));
                    seq.push(Op::Univ(1));
                    seq.push(Op::Ins(1, 7));
                    seq.push(Op::Cmp(0, 1));
                    seq.push(Op::Emp(1));
                    seq.push(Op::Ins(1, 9));
                }
                _ => {
                    seq.push(Op::Cmp(0, 0));
                    seq.push(Op::Uni(0, 1));
                    seq.push(Op::Ins(0, 9));
                }
            }
            for e in [0usize, 5, 7, 9, 100, 2047] {
                seq.push(Op::Has(0, e));
                seq.push(Op::Has(1, e));
            }
            emit(out, bits, &seq);
        }
    }
    // random histories, bits <= 5
    let mut rng = Rng::new(o.seed ^ 0x5e);
    let n = if o.thorough { 20_000 } else { 1_500 };
    for _ in 0..n {
        let bits = 1 + rng.below(5) as usize;
        let len = 1 + rng.below(25) as usize;
        let mut seq = vec![];
        for _ in 0..len {
            let i = rng.below(2) as u8;
            let j = rng.below(2) as u8;
            let e = rng.below(1 << bits) as usize;
            seq.push(match rng.below(10) {
                0 | 1 | 2 => Op::Ins(i, e),
                3 => Op::Uni(i, j),
                4 => Op::Int(i, j),
                5 => Op::Cmp(i, j),
                6 => {
                    if rng.chance(1, 2) {
                        Op::Emp(i)
                    } else {
                        Op::Univ(i)
                    }
                }
                _ => Op::Has(i, e),
            });
        }
        for i in 0..2u8 {
            for e in 0..(1usize << bits) {
                seq.push(Op::Has(i, e));
            }
        }
        emit(out, bits, &seq);
    }
}

pub fn replay(args: &Sx) -> String {
    let a = match args.list() {
        Some(a) if a.len() == 2 => a,
        _ => return "(harness-error args)".into(),
    };
    // one width, or a pair of widths (op set2)
    let (b0, b1): (usize, usize) = match a[0].list() {
        Some(l) if l.len() == 2 => (l[0].atom().and_then(|s| s.parse().ok()).unwrap_or(2), l[1].atom().and_then(|s| s.parse().ok()).unwrap_or(2)),
        _ => {
            let b = a[0].atom().and_then(|s| s.parse().ok()).unwrap_or(2);
            (b, b)
        }
    };
    let ops: Option<Vec<Op>> = a[1].list().map(|l| l.iter().filter_map(sx_op).collect());
    match ops {
        Some(o) => real_run2(b0, b1, &o),
        None => "(harness-error ops)".into(),
    }
}
