//! Suites S-gen-*: the four generator binaries.  Their output is parsed with the real rsbdd parser and
//! brought into the canonical form the driver also computes from the Coq model's formula.
use crate::scli::{par_map, run_bin};
use crate::stext::show_form;
use crate::sx::{Rng, Sx};
use crate::{Opts, Out};
use rsbdd::parser::*;
use std::collections::HashMap;
use std::time::Duration;

fn conj_list(f: &SymbolicBDD) -> Vec<&SymbolicBDD> {
    match f {
        SymbolicBDD::BinaryOp(BinaryOperator::And, a, b) => {
            let mut v = vec![a.as_ref()];
            v.extend(conj_list(b));
            v
        }
        x => vec![x],
    }
}

fn cop(op: &CountableOperator) -> &'static str {
    match op {
        CountableOperator::AtMost => "le",
        CountableOperator::LessThan => "lt",
        CountableOperator::AtLeast => "ge",
        CountableOperator::MoreThan => "gt",
        CountableOperator::Exactly => "eq",
    }
}

fn sorted(mut v: Vec<String>) -> String {
    v.sort();
    format!("({})", v.join(" "))
}

fn canon_conj(f: &SymbolicBDD, pv: &dyn Fn(&str) -> String) -> String {
    let generic = |g: &SymbolicBDD| {
        let mut s = String::new();
        show_form(g, &mut s);
        s
    };
    let vars = |l: &Vec<SymbolicBDD>| -> Vec<String> {
        l.iter()
            .map(|g| match g {
                SymbolicBDD::Var(v) => pv(&v.name),
                other => generic(other),
            })
            .collect()
    };
    match f {
        SymbolicBDD::True => "T".into(),
        SymbolicBDD::False => "F".into(),
        SymbolicBDD::Var(v) => pv(&v.name),
        SymbolicBDD::CountableConst(op, fs, n) => format!("(CC {} {} {})", cop(op), sorted(vars(fs)), n),
        SymbolicBDD::Not(inner) => match inner.as_ref() {
            SymbolicBDD::BinaryOp(BinaryOperator::And, a, b) => match (a.as_ref(), b.as_ref()) {
                (SymbolicBDD::Var(x), SymbolicBDD::Var(y)) => format!("(nonedge {})", sorted(vec![pv(&x.name), pv(&y.name)])),
                _ => generic(f),
            },
            _ => generic(f),
        },
        SymbolicBDD::Quantifier(QuantifierType::Forall, vs, body) => match body.as_ref() {
            SymbolicBDD::BinaryOp(BinaryOperator::Implies, prem, concl) => match concl.as_ref() {
                SymbolicBDD::CountableVariable(CountableOperator::AtLeast, l, r) => format!(
                    "(max {} {} {} {})",
                    sorted(vs.iter().map(|v| pv(&v.name)).collect()),
                    sorted(conj_list(prem).iter().map(|c| canon_conj(c, pv)).collect()),
                    sorted(vars(l)),
                    sorted(vars(r))
                ),
                _ => generic(f),
            },
            _ => generic(f),
        },
        _ => generic(f),
    }
}

fn canon_output(text: &[u8], pv: &dyn Fn(&str) -> String) -> String {
    let mut rd = std::io::BufReader::new(text);
    match ParsedFormula::new(&mut rd, None) {
        Err(_) => "(not-a-formula)".into(),
        Ok(p) => {
            let cs: Vec<String> = conj_list(&p.bdd).iter().map(|c| canon_conj(c, pv)).collect();
            format!("(ok {})", sorted(cs))
        }
    }
}

/// solve a generated formula with the real library and list its models over its free variables
fn real_models(text: &[u8], pv: &dyn Fn(&str) -> String) -> String {
    use rsbdd::bdd::BDD;
    use rsbdd::NamedSymbol;
    use std::rc::Rc;
    let mut rd = std::io::BufReader::new(text);
    let p = match ParsedFormula::new(&mut rd, None) {
        Err(_) => return "(not-a-formula)".into(),
        Ok(p) => p,
    };
    let b = p.eval();
    let free: Vec<NamedSymbol> = p.free_vars.clone();
    if free.len() > 18 {
        return "(too-many-variables)".into();
    }
    fn eval(b: &Rc<BDD<NamedSymbol>>, asg: &HashMap<usize, bool>) -> bool {
        match b.as_ref() {
            BDD::True => true,
            BDD::False => false,
            BDD::Choice(t, v, f) => {
                if *asg.get(&v.id).unwrap_or(&false) {
                    eval(t, asg)
                } else {
                    eval(f, asg)
                }
            }
        }
    }
    let mut models = vec![];
    for m in 0u32..(1u32 << free.len()) {
        let asg: HashMap<usize, bool> = free.iter().enumerate().map(|(i, v)| (v.id, m >> i & 1 == 1)).collect();
        if eval(&b, &asg) {
            let t: Vec<String> = free.iter().enumerate().filter(|(i, _)| m >> i & 1 == 1).map(|(_, v)| pv(&v.name)).collect();
            models.push(sorted(t));
        }
    }
    format!("(ok {} {})", sorted(free.iter().map(|v| pv(&v.name)).collect()), sorted(models))
}

fn run_gen(bindir: &str, name: &str, args: &[String], stdin: Option<&[u8]>) -> Result<Vec<u8>, String> {
    let r = run_bin(&format!("{bindir}/{name}"), args, stdin, Duration::from_secs(60));
    if r.timed_out {
        return Err("(timeout)".into());
    }
    let stderr = String::from_utf8_lossy(&r.stderr);
    match r.code {
        Some(0) => Ok(r.stdout),
        Some(101) | None => Err("(panic)".into()),
        Some(_) => {
            if stderr.contains("panicked at") {
                Err("(panic)".into())
            } else {
                Err("(err)".into())
            }
        }
    }
}

/// run a generator that writes to an OUTPUT file which already exists and is longer than the new output
/// (regenerating into an old file); returns the file's content afterwards
fn run_gen_to_file(bindir: &str, name: &str, args: &[String], out_flag: Option<&str>, stdin: Option<&[u8]>, input_file: Option<&[u8]>, tag: usize) -> Result<Vec<u8>, String> {
    let dir = std::path::PathBuf::from(format!("/verif/_build/tmp/{}", std::process::id()));
    let _ = std::fs::create_dir_all(&dir);
    let outp = dir.join(format!("{name}_{tag}.out"));
    let junk: String = "\"stale content of an earlier, larger run\" stale & stale2 &\n".repeat(4000);
    std::fs::write(&outp, junk).map_err(|_| "(harness-io)".to_string())?;
    let mut a: Vec<String> = args.to_vec();
    let mut inp = None;
    if let Some(content) = input_file {
        // a legal but unfriendly path: blanks, a double quote, formula syntax
        let ip = if (tag / 8) % 2 == 0 { dir.join(format!("{name}_{tag}.in")) } else { dir.join(format!("{name} {tag} x\" -a & \".in")) };
        std::fs::write(&ip, content).map_err(|_| "(harness-io)".to_string())?;
        a.push(ip.display().to_string());
        inp = Some(ip);
    }
    if let Some(f) = out_flag {
        a.push(f.to_string());
    }
    a.push(outp.display().to_string());
    let r = run_gen(bindir, name, &a, stdin);
    let content = std::fs::read(&outp).unwrap_or_default();
    let _ = std::fs::remove_file(&outp);
    if let Some(ip) = inp {
        let _ = std::fs::remove_file(ip);
    }
    r.map(|_| content)
}

// ---------------------------------------------------------------------------------------------- queens

pub fn real_queens(bindir: &str, n: usize) -> String {
    match run_gen(bindir, "n_queens_gen", &["-n".into(), n.to_string()], None) {
        Err(e) => e,
        Ok(out) => canon_output(&out, &|name: &str| match name.strip_prefix("v_").and_then(|k| k.parse::<u64>().ok()) {
            Some(k) => k.to_string(),
            None => format!("?{name}"),
        }),
    }
}

/// evaluate a generated formula (an &-chain of counting constraints over plain variables) under an assignment
fn eval_generated(f: &SymbolicBDD, val: &dyn Fn(&str) -> bool) -> Option<bool> {
    match f {
        SymbolicBDD::True => Some(true),
        SymbolicBDD::False => Some(false),
        SymbolicBDD::Var(v) => Some(val(&v.name)),
        SymbolicBDD::Not(g) => eval_generated(g, val).map(|b| !b),
        SymbolicBDD::BinaryOp(BinaryOperator::And, a, b) => Some(eval_generated(a, val)? && eval_generated(b, val)?),
        SymbolicBDD::BinaryOp(BinaryOperator::Or, a, b) => Some(eval_generated(a, val)? || eval_generated(b, val)?),
        SymbolicBDD::CountableConst(op, fs, n) => {
            let mut c = 0usize;
            for g in fs {
                if eval_generated(g, val)? {
                    c += 1;
                }
            }
            Some(match op {
                CountableOperator::AtMost => c <= *n,
                CountableOperator::LessThan => c < *n,
                CountableOperator::AtLeast => c >= *n,
                CountableOperator::MoreThan => c > *n,
                CountableOperator::Exactly => c == *n,
            })
        }
        _ => None,
    }
}

/// all placements of n non-attacking queens, one per row (column of the queen in row r), in lexicographic order
fn queens_placements(n: usize) -> Vec<Vec<usize>> {
    fn go(n: usize, cur: &mut Vec<usize>, out: &mut Vec<Vec<usize>>) {
        let r = cur.len();
        if r == n {
            out.push(cur.clone());
            return;
        }
        for c in 0..n {
            if cur.iter().enumerate().all(|(r2, c2)| *c2 != c && r - r2 != c.abs_diff(*c2)) {
                cur.push(c);
                go(n, cur, out);
                cur.pop();
            }
        }
    }
    let mut out = vec![];
    go(n, &mut vec![], &mut out);
    out
}

/// the real formula evaluated on every n-queens placement (all must satisfy it) and on every placement with one
/// queen moved to another column of its row (none may satisfy it)
pub fn real_queenssols(bindir: &str, n: usize) -> String {
    let outp = match run_gen(bindir, "n_queens_gen", &["-n".into(), n.to_string()], None) {
        Err(e) => return e,
        Ok(o) => o,
    };
    let mut rd = std::io::BufReader::new(&outp[..]);
    let p = match ParsedFormula::new(&mut rd, None) {
        Err(_) => return "(not-a-formula)".into(),
        Ok(p) => p,
    };
    let sols = queens_placements(n);
    let mut rejected: Option<String> = None;
    let mut accepted_wrong: Option<String> = None;
    let mut nsat = 0usize;
    for s in &sols {
        let val = |name: &str| -> bool { name.strip_prefix("v_").and_then(|k| k.parse::<usize>().ok()).map(|k| k / n < n && s[k / n] == k % n).unwrap_or(false) };
        match eval_generated(&p.bdd, &val) {
            Some(true) => nsat += 1,
            Some(false) => {
                if rejected.is_none() {
                    rejected = Some(s.iter().map(|c| c.to_string()).collect::<Vec<_>>().join(" "));
                }
            }
            None => return "(unexpected-shape)".into(),
        }
        // near misses: move the queen of row 0 (and of the last row) to every other column
        for row in [0usize, n - 1] {
            for c in 0..n {
                if c == s[row] {
                    continue;
                }
                let mut t = s.clone();
                t[row] = c;
                let val2 = |name: &str| -> bool { name.strip_prefix("v_").and_then(|k| k.parse::<usize>().ok()).map(|k| k / n < n && t[k / n] == k % n).unwrap_or(false) };
                if eval_generated(&p.bdd, &val2) == Some(true) && accepted_wrong.is_none() && !sols.contains(&t) {
                    accepted_wrong = Some(t.iter().map(|c| c.to_string()).collect::<Vec<_>>().join(" "));
                }
            }
        }
    }
    format!("(ok {} {} (rejected {}) (accepted-wrongly {}))", sols.len(), nsat, rejected.unwrap_or_default(), accepted_wrong.unwrap_or_default())
}

/// large boards: number of conjuncts and largest index only (the parse of a 300x300 board is slow on the model side)
pub fn real_queensbig(bindir: &str, n: usize) -> String {
    match run_gen(bindir, "n_queens_gen", &["-n".into(), n.to_string()], None) {
        Err(e) => e,
        Ok(out) => {
            {
                let mut rd = std::io::BufReader::new(&out[..]);
                // (the real tokenizer takes minutes on tens of megabytes: boards above 400 are judged by line structure only)
                if n <= 400 && rsbdd::parser::SymbolicBDD::tokenize(&mut rd, None).is_err() {
                    return "(not-a-formula)".into();
                }
                // anything that is not a comment, a constraint list line, the final `true` or blank makes it ill-formed
                for line in String::from_utf8_lossy(&out).lines() {
                    let l = line.trim();
                    let ok = l.is_empty() || (l.starts_with('"') && l.ends_with('"')) || l == "true" || (l.starts_with('[') && (l.ends_with("] <= 1 &") || l.ends_with("] = 1 &")));
                    if !ok {
                        return "(not-a-formula)".into();
                    }
                }
            }
            let text = String::from_utf8_lossy(&out);
            let mut maxidx = 0u64;
            let mut count = 0u64;
            let mut seen = std::collections::HashSet::new();
            let mut odd_names = 0u64;
            for line in text.lines() {
                if line.starts_with('[') {
                    count += 1;
                    let inner = line.trim_start_matches('[');
                    let inner = inner.split(']').next().unwrap_or("");
                    for tok in inner.split(',') {
                        let t = tok.trim();
                        if t.is_empty() {
                            continue;
                        }
                        // a cell name is v_ followed by the decimal cell number without leading zeros
                        match t.strip_prefix("v_").and_then(|k| k.parse::<u64>().ok()) {
                            Some(k) if t == format!("v_{k}") => {
                                maxidx = maxidx.max(k);
                                seen.insert(k);
                            }
                            _ => odd_names += 1,
                        }
                    }
                } else if line.trim() == "true" {
                    count += 1;
                }
            }
            format!("(ok {count} {maxidx} {} {odd_names})", seen.len())
        }
    }
}

/// boards whose formula is too large to produce (tens of gigabytes): the first megabytes of the stream only, then the
/// generator is stopped; every complete line must be a comment or a constraint list over names v_<k> with k < n*n
pub fn real_queenshuge(bindir: &str, n: usize) -> String {
    use std::io::Read;
    use std::process::{Command, Stdio};
    // address space capped at 8 GiB (a generator that collects the whole formula before writing must not exhaust the machine),
    // 30 s for the first 6 MB
    let mut child = match Command::new("sh")
        .arg("-c")
        .arg("ulimit -v 8388608; exec \"$0\" -n \"$1\"")
        .arg(format!("{bindir}/n_queens_gen"))
        .arg(n.to_string())
        .env("RUST_BACKTRACE", "0")
        .stdin(Stdio::null())
        .stdout(Stdio::piped())
        .stderr(Stdio::piped())
        .spawn()
    {
        Ok(c) => c,
        Err(_) => return "(harness-io)".into(),
    };
    let mut so = child.stdout.take().unwrap();
    let (tx, rx) = std::sync::mpsc::channel::<Vec<u8>>();
    let want = 6usize << 20;
    std::thread::spawn(move || {
        let mut buf = vec![0u8; want];
        let mut got = 0usize;
        while got < buf.len() {
            match so.read(&mut buf[got..]) {
                Ok(0) => break,
                Ok(k) => got += k,
                Err(_) => break,
            }
        }
        buf.truncate(got);
        let _ = tx.send(buf);
    });
    let res = rx.recv_timeout(Duration::from_secs(30));
    let _ = child.kill();
    let st = child.wait().ok();
    let mut err = String::new();
    if let Some(mut se) = child.stderr.take() {
        let _ = se.read_to_string(&mut err);
    }
    if err.contains("panicked at") || st.and_then(|s| s.code()) == Some(101) {
        return "(panic)".into();
    }
    let buf = match res {
        Ok(b) => b,
        Err(_) => return "(no-output-in-time)".into(),
    };
    let got = buf.len();
    if got < want {
        return format!("(short-output {got})");
    }
    let text = String::from_utf8_lossy(&buf[..got]);
    let lines: Vec<&str> = text.split('\n').collect();
    let limit = (n as u128) * (n as u128);
    for line in &lines[..lines.len() - 1] {
        let l = line.trim();
        if l.is_empty() || (l.starts_with('"') && l.ends_with('"')) {
            continue;
        }
        if !(l.starts_with('[') && (l.ends_with("] <= 1 &") || l.ends_with("] = 1 &"))) {
            return format!("(not-a-formula {})", l.chars().take(40).filter(|c| c.is_ascii_alphanumeric() || *c == '_' || *c == '-').collect::<String>());
        }
        let inner = l.trim_start_matches('[').split(']').next().unwrap_or("");
        for tok in inner.split(',') {
            let t = tok.trim();
            if t.is_empty() {
                continue;
            }
            match t.strip_prefix("v_").and_then(|k| k.parse::<u128>().ok()) {
                Some(k) if k < limit && t == format!("v_{k}") => {}
                _ => return format!("(not-a-formula name-{})", t.chars().take(24).filter(|c| c.is_ascii_alphanumeric() || *c == '_' || *c == '-').collect::<String>()),
            }
        }
    }
    "(ok-prefix)".into()
}

// ---------------------------------------------------------------------------------------------- sudoku

fn sudoku_text_sx(s: &str) -> Sx {
    Sx::l(s.chars()
        .map(|c| {
            let cp = c as u32;
            if cp >= 128 && c.is_whitespace() {
                Sx::a(format!("{cp}:s"))
            } else {
                Sx::n(cp)
            }
        })
        .collect())
}

pub fn real_sudoku(bindir: &str, r: usize, puzzle: &str) -> String {
    match run_gen(bindir, "sudoku_gen", &["-r".into(), r.to_string()], Some(puzzle.as_bytes())) {
        Err(e) => e,
        Ok(out) => canon_output(&out, &|name: &str| {
            // _<cell>_is_<digit>
            let parts: Vec<&str> = name.split('_').collect();
            if parts.len() == 4 && parts[0].is_empty() && parts[2] == "is" {
                if let (Ok(c), Ok(d)) = (parts[1].parse::<u64>(), parts[3].parse::<u64>()) {
                    return format!("({c} {d})");
                }
            }
            format!("?{name}")
        }),
    }
}

// ---------------------------------------------------------------------------------------------- clique

/// vertex names are given by index; `names[i]` is how vertex i is spelled in the csv
pub fn real_clique(bindir: &str, names: &[String], edges: &[(usize, usize)], u: bool, all: bool, models: bool) -> (String, Vec<usize>) {
    real_clique_x(bindir, names, edges, u, all, models, None)
}

pub fn real_clique_x(bindir: &str, names: &[String], edges: &[(usize, usize)], u: bool, all: bool, models: bool, to_file: Option<usize>) -> (String, Vec<usize>) {
    let mut csv = String::new();
    for (a, b) in edges {
        csv.push_str(&format!("{},{}\n", names[*a], names[*b]));
    }
    let mut args: Vec<String> = vec![];
    if u {
        args.push("-u".into());
    }
    if all {
        args.push("-a".into());
    }
    let res = match to_file {
        Some(tag) => run_gen_to_file(bindir, "max_clique_gen", &args, None, None, Some(csv.as_bytes()), tag),
        None => run_gen(bindir, "max_clique_gen", &args, Some(csv.as_bytes())),
    };
    let out = match res {
        Err(e) => return (e, vec![]),
        Ok(o) => o,
    };
    // vertices that occur in an edge
    let mut used: Vec<usize> = edges.iter().flat_map(|(a, b)| [*a, *b]).collect();
    used.sort();
    used.dedup();
    let index: HashMap<&str, usize> = used.iter().map(|i| (names[*i].as_str(), *i)).collect();
    // the iteration order of the vertex set, read off the `forall` list; copies are prefix + name
    let text = String::from_utf8_lossy(&out).to_string();
    let mut order: Vec<usize> = used.clone();
    let mut prefix: Option<String> = None;
    if !all {
        if let Some(line) = text.lines().find(|l| l.starts_with("forall ")) {
            let list = line.trim_start_matches("forall ").trim_end_matches('(').trim().trim_end_matches('#').trim();
            let copies: Vec<&str> = if list.is_empty() { vec![] } else { list.split(", ").collect() };
            // the prefix is what precedes the vertex name in every copy; determine it from the longest vertex name match
            let mut ord = vec![];
            for c in &copies {
                let mut best: Option<(usize, &str)> = None;
                for (nm, i) in &index {
                    if c.ends_with(nm) {
                        let p = &c[..c.len() - nm.len()];
                        if p.starts_with("v_") && p[2..].chars().all(|ch| ch == '_') && best.map(|(_, bp)| p.len() < bp.len()).unwrap_or(true) {
                            best = Some((*i, p));
                        }
                    }
                }
                match best {
                    Some((i, p)) => {
                        // all copies must use one prefix
                        match &prefix {
                            None => prefix = Some(p.to_string()),
                            Some(q) if q != p => {
                                // try to re-split with the known prefix
                                if let Some(rest) = c.strip_prefix(q.as_str()) {
                                    if let Some(j) = index.get(rest) {
                                        ord.push(*j);
                                        continue;
                                    }
                                }
                                return ("(inconsistent-copy-prefix)".into(), vec![]);
                            }
                            _ => {}
                        }
                        ord.push(i);
                    }
                    None => return ("(unrecognised-copy-name)".into(), vec![]),
                }
            }
            order = ord;
        }
    }
    // the quantified copies must be one per vertex: the theorem counts over a duplicate-free vertex list
    {
        let mut o2 = order.clone();
        o2.sort();
        if o2 != used {
            return ("(vertex-list-not-a-permutation-of-the-vertices)".into(), order);
        }
    }
    let pfx = prefix.clone().unwrap_or_else(|| "v_".to_string());
    if !all && used.iter().any(|i| names[*i].starts_with(&pfx)) {
        return ("(copy-prefix-not-fresh)".into(), order);
    }
    let pv = |name: &str| -> String {
        if let Some(i) = index.get(name) {
            return i.to_string();
        }
        if let Some(rest) = name.strip_prefix(pfx.as_str()) {
            if let Some(i) = index.get(rest) {
                return format!("(C {i})");
            }
        }
        format!("?{name}")
    };
    (if models { real_models(&out, &pv) } else { canon_output(&out, &pv) }, order)
}

// ---------------------------------------------------------------------------------------------- graph

fn parse_edges(out: &[u8], dot: bool, u: bool) -> Option<Vec<(String, String)>> {
    let text = String::from_utf8_lossy(out);
    let mut v = vec![];
    for line in text.lines() {
        let l = line.trim();
        if dot {
            if l.starts_with("graph") || l.starts_with("digraph") || l == "}" || l.is_empty() {
                continue;
            }
            let sep = if u { " -- " } else { " -> " };
            let (a, b) = l.split_once(sep)?;
            v.push((a.to_string(), b.to_string()));
        } else {
            if l.is_empty() {
                continue;
            }
            let (a, b) = l.split_once(',')?;
            v.push((a.to_string(), b.to_string()));
        }
    }
    Some(v)
}

fn edges_sx(e: &[(usize, usize)]) -> Sx {
    Sx::l(e.iter().map(|(a, b)| Sx::l(vec![Sx::n(a), Sx::n(b)])).collect())
}

pub fn main(out: &mut Out, o: &Opts) {
    let bindir = o.bindir.clone();
    let mut rng = Rng::new(o.seed ^ 0x9e);
    for p in o.parts.clone() {
        match p.as_str() {
            "queens" => {
                let max = if o.thorough { 40 } else { 12 };
                let mut ns: Vec<usize> = (0..=max).collect();
                if !o.thorough {
                    ns.extend([16usize, 17, 20, 33]);
                }
                let res = par_map(&ns, |n| real_queens(&bindir, *n));
                for (n, r) in ns.iter().zip(res.iter()) {
                    out.emit("queens", &Sx::l(vec![Sx::n(n)]).show(), r);
                }
                // end to end: the real output solved by the real library against brute force over the model's formula
                let small: Vec<usize> = if o.thorough { vec![1, 2, 3, 4] } else { vec![1, 2, 3, 4] };
                let res = par_map(&small, |n| match run_gen(&bindir, "n_queens_gen", &["-n".into(), n.to_string()], None) {
                    Err(e) => e,
                    Ok(outp) => real_models(&outp, &|name: &str| name.strip_prefix("v_").unwrap_or("?").to_string()),
                });
                for (n, r) in small.iter().zip(res.iter()) {
                    out.emit("queensmodels", &Sx::l(vec![Sx::n(n)]).show(), r);
                }
                // the OUTPUT-file path of the generator, regenerating into an existing longer file
                let filed: Vec<usize> = vec![1, 2, 4, 6];
                let res = par_map(&filed, |n| match run_gen_to_file(&bindir, "n_queens_gen", &["-n".into(), n.to_string()], None, None, None, *n) {
                    Err(e) => e,
                    Ok(outp) => canon_output(&outp, &|name: &str| match name.strip_prefix("v_").and_then(|k| k.parse::<u64>().ok()) {
                        Some(k) => k.to_string(),
                        None => format!("?{name}"),
                    }),
                });
                for (n, r) in filed.iter().zip(res.iter()) {
                    out.emit("queens", &Sx::l(vec![Sx::n(n), Sx::a("to-file")]).show(), r);
                }
                // every n-queens placement must satisfy the real formula, near misses must not (n = 5..9)
                let mid: Vec<usize> = if o.thorough { vec![5, 6, 7, 8, 9, 10] } else { vec![5, 6, 7, 8, 9] };
                let res = par_map(&mid, |n| real_queenssols(&bindir, *n));
                for (n, r) in mid.iter().zip(res.iter()) {
                    out.emit("queenssols", &Sx::l(vec![Sx::n(n)]).show(), r);
                }
                // decimal-width boundaries of the cell number n*n-1 (5 -> 6 digits at n = 317, 6 -> 7 at n = 1000) and the u16 boundary of n
                let big: Vec<usize> = if o.thorough { vec![100, 255, 256, 257, 300, 316, 317, 332, 400, 999, 1000, 1001, 1500] } else { vec![255, 256, 300, 316, 317, 400, 1000] };
                let res = par_map(&big, |n| real_queensbig(&bindir, *n));
                for (n, r) in big.iter().zip(res.iter()) {
                    out.emit("queensbig", &Sx::l(vec![Sx::n(n)]).show(), r);
                }
                // boards whose cell numbers pass 2^31 and 2^32 (n = 46341, 65535): the head of the stream only
                let huge: Vec<usize> = vec![3163, 10000, 46340, 46341, 50000, 65535];
                let res = par_map(&huge, |n| real_queenshuge(&bindir, *n));
                for (n, r) in huge.iter().zip(res.iter()) {
                    out.emit("queenshuge", &Sx::l(vec![Sx::n(n)]).show(), r);
                }
            }
            "sudoku" => {
                let mut cases: Vec<(usize, String)> = vec![];
                // r = 1: every single character class; r = 2: all puzzles with <= 2 givens on a fixed layout, blanks of several kinds
                for t in ["", "1", "0", "2", ".", "x", " 1", "1 ", "\n1\n", "11", ".1", "\"", "1\"", "9", "١", "\u{a0}1", "\u{2003}1\u{2003}",
                          "\u{131}", "\u{2531}", "\u{2534}", "\u{10031}", "\u{ff11}", "\u{1d7cf}", "\u{feff}1", "1\r\n", "\u{131}1"] {
                    cases.push((1, t.to_string()));
                }
                let blanks = ['.', '0', '_', 'x', '-'];
                cases.push((2, String::new()));
                for i in 0..16 {
                    for d in 1..=4 {
                        let mut s: Vec<char> = vec!['.'; 16];
                        s[i] = char::from_digit(d, 10).unwrap();
                        cases.push((2, s.iter().collect()));
                        if o.thorough || (i + d as usize) % 3 == 0 {
                            for j in (i + 1)..16 {
                                for e in 1..=4 {
                                    if !o.thorough && (j + e as usize) % 4 != 0 {
                                        continue;
                                    }
                                    let mut s2 = s.clone();
                                    s2[j] = char::from_digit(e, 10).unwrap();
                                    cases.push((2, s2.iter().collect()));
                                }
                            }
                        }
                    }
                }
                let nr = if o.thorough { 2_000 } else { 200 };
                for k in 0..nr {
                    let r = if k % 10 == 0 { 3 } else if k % 3 == 0 { 1 } else { 2 };
                    let cells = r * r * r * r;
                    let len = match rng.below(4) {
                        0 => rng.below(cells as u64 + 1) as usize,
                        1 => cells + rng.below(5) as usize,
                        _ => cells,
                    };
                    let mut s = String::new();
                    for i in 0..len {
                        let c = match rng.below(10) {
                            0 | 1 | 2 => char::from_digit(rng.below(10) as u32, 10).unwrap(),
                            // incl. characters whose code point ends in the byte of an ASCII digit (U+0131, U+2534, U+10032) and non-ASCII digits
                            3 => *rng.pick(&['"', 'é', '#', '[', ']', ',', '\u{131}', '\u{2534}', '\u{2533}', '\u{2235}', '\u{10032}', '\u{ff12}', '\u{663}', '\u{1d7d0}']),
                            _ => *rng.pick(&blanks),
                        };
                        s.push(c);
                        if rng.chance(1, 6) {
                            s.push(*rng.pick(&[' ', '\n', '\t', '\r', '\u{a0}']));
                        }
                        if (i + 1) % (r * r) == 0 && rng.chance(1, 2) {
                            s.push('\n');
                        }
                    }
                    cases.push((r, s));
                }
                let res = par_map(&cases, |(r, t)| real_sudoku(&bindir, *r, t));
                for ((r, t), res) in cases.iter().zip(res.iter()) {
                    out.emit("sudoku", &Sx::l(vec![Sx::n(r), sudoku_text_sx(t)]).show(), res);
                }
                // INPUT and OUTPUT given as files, OUTPUT existing and longer
                let filed: Vec<(usize, (usize, String))> = cases.iter().cloned().enumerate().filter(|(i, _)| i % 25 == 0).collect();
                let res = par_map(&filed, |(i, (r, t))| {
                    match run_gen_to_file(&bindir, "sudoku_gen", &["-r".into(), r.to_string()], None, None, Some(t.as_bytes()), *i) {
                        Err(e) => e,
                        Ok(outp) => canon_output(&outp, &|name: &str| {
                            let parts: Vec<&str> = name.split('_').collect();
                            if parts.len() == 4 && parts[0].is_empty() && parts[2] == "is" {
                                if let (Ok(c), Ok(d)) = (parts[1].parse::<u64>(), parts[3].parse::<u64>()) {
                                    return format!("({c} {d})");
                                }
                            }
                            format!("?{name}")
                        }),
                    }
                });
                for ((_, (r, t)), res) in filed.iter().zip(res.iter()) {
                    out.emit("sudoku", &Sx::l(vec![Sx::n(r), sudoku_text_sx(t), Sx::a("to-file")]).show(), res);
                }
            }
            "clique" => {
                let plain: Vec<String> = ["a", "b", "c", "d", "e", "f", "g"].iter().map(|s| s.to_string()).collect();
                let tricky: Vec<String> = ["a", "v_a", "v_", "v__a", "b", "v_b", "x1"].iter().map(|s| s.to_string()).collect();
                // names that differ only in case, a doubly prefixed name, names that are prefixes of one another
                let cased: Vec<String> = ["a", "A", "b", "B", "x", "v__x", "ab"].iter().map(|s| s.to_string()).collect();
                // vertex names that collide pairwise under FxHash (0/1, 2/3, 4/5, 6/7); falls back to plain names if none were found
                let mut collp: Vec<String> = crate::stext::colliding_names(o.seed, 4).into_iter().flat_map(|(a, b)| [a, b]).collect();
                if collp.len() < 7 {
                    collp = plain.clone();
                }
                let mut cases: Vec<(Vec<String>, Vec<(usize, usize)>, bool, bool)> = vec![];
                // all directed graphs on <= 3 vertices (loops excluded), all undirected on <= 4
                for mask in 0u32..64 {
                    let pairs = [(0, 1), (1, 0), (0, 2), (2, 0), (1, 2), (2, 1)];
                    let e: Vec<(usize, usize)> = (0..6).filter(|i| mask >> i & 1 == 1).map(|i| pairs[i]).collect();
                    if e.is_empty() {
                        continue;
                    }
                    for (u, all) in [(false, false), (false, true), (true, false), (true, true)] {
                        cases.push((plain.clone(), e.clone(), u, all));
                    }
                    cases.push((tricky.clone(), e.clone(), true, false));
                    cases.push((cased.clone(), e.clone(), true, false));
                    cases.push((cased.clone(), e.clone(), false, false));
                    cases.push((collp.clone(), e.clone(), true, false));
                    cases.push((collp.clone(), e.clone(), false, true));
                }
                // self loops (also on a vertex that occurs nowhere else) and names whose concatenations with "_" coincide
                let under: Vec<String> = ["a_b", "c", "a", "b_c", "b", "a_b_c", "_"].iter().map(|s| s.to_string()).collect();
                for e in [vec![(0usize, 1usize), (1, 0), (2, 2)], vec![(2, 2)], vec![(0, 0), (1, 1)], vec![(0, 1), (1, 1), (1, 2), (2, 1), (3, 3)], vec![(0, 1), (2, 1), (3, 1)],
                          vec![(0, 1), (1, 0), (2, 3), (3, 2), (2, 1), (1, 2)], vec![(0, 1), (2, 1), (3, 1), (2, 3), (0, 4)], vec![(5, 1), (0, 3), (2, 1)]] {
                    for u in [true, false] {
                        for all in [false, true] {
                            cases.push((plain.clone(), e.clone(), u, all));
                            cases.push((under.clone(), e.clone(), u, all));
                        }
                    }
                }
                // interleaved mentions of names equal up to case, and the doubly prefixed name next to its base name
                for e in [vec![(0usize, 1usize), (1, 2), (0, 3)], vec![(0, 1), (1, 2), (2, 3), (3, 1), (0, 4)], vec![(4, 5)], vec![(4, 5), (5, 0), (0, 4)], vec![(1, 0), (0, 2), (1, 3), (0, 1)]] {
                    for u in [true, false] {
                        cases.push((cased.clone(), e.clone(), u, false));
                        cases.push((cased.clone(), e.clone(), u, true));
                    }
                }
                for mask in 1u32..64 {
                    let pairs = [(0, 1), (0, 2), (0, 3), (1, 2), (1, 3), (2, 3)];
                    let e: Vec<(usize, usize)> = (0..6).filter(|i| mask >> i & 1 == 1).map(|i| pairs[i]).collect();
                    for all in [false, true] {
                        cases.push((plain.clone(), e.clone(), true, all));
                    }
                }
                let nr = if o.thorough { 5_000 } else { 300 };
                for k in 0..nr {
                    let nv = 2 + rng.below(6) as usize;
                    let ne = 1 + rng.below(12) as usize;
                    let e: Vec<(usize, usize)> = (0..ne)
                        .map(|_| (rng.below(nv as u64) as usize, rng.below(nv as u64) as usize))
                        .filter(|(a, b)| a != b || k % 5 == 0)
                        .collect();
                    if e.is_empty() {
                        continue;
                    }
                    let names = if k % 7 == 6 { under.clone() } else if k % 4 == 3 { collp.clone() } else if k % 3 == 0 { tricky.clone() } else if k % 3 == 1 { cased.clone() } else { plain.clone() };
                    cases.push((names, e, rng.chance(1, 2), rng.chance(1, 3)));
                }
                {
                    // INPUT and OUTPUT as files, OUTPUT existing and longer
                    let sel: Vec<(usize, &(Vec<String>, Vec<(usize, usize)>, bool, bool))> = cases.iter().enumerate().filter(|(i, _)| i % 40 == 0).collect();
                    let res = par_map(&sel, |(i, (names, e, u, all))| {
                        let (r, order) = real_clique_x(&bindir, names, e, *u, *all, false, Some(*i));
                        format!("{}\u{1}{}", r, order.iter().map(|i| i.to_string()).collect::<Vec<_>>().join(" "))
                    });
                    for ((_, (names, e, u, all)), r) in sel.iter().zip(res.iter()) {
                        let (res, order) = r.split_once('\u{1}').unwrap_or((r.as_str(), ""));
                        let order_sx = Sx::l(order.split_whitespace().map(Sx::a).collect());
                        let args = Sx::l(vec![Sx::l(vec![Sx::n(*u as u8), Sx::n(*all as u8)]), order_sx, edges_sx(e), Sx::l(names.iter().map(Sx::a).collect()), Sx::a("to-file")]);
                        out.emit("clique", &args.show(), res);
                    }
                }
                {
                    // the same through files, solved end to end (graphs with <= 4 vertices)
                    let sel: Vec<(usize, &(Vec<String>, Vec<(usize, usize)>, bool, bool))> =
                        cases.iter().enumerate().filter(|(i, (_, e, _, _))| i % 8 == 0 && e.iter().all(|(a, b)| *a < 4 && *b < 4)).collect();
                    let res = par_map(&sel, |(i, (names, e, u, all))| {
                        let (r, order) = real_clique_x(&bindir, names, e, *u, *all, true, Some(*i));
                        format!("{}\u{1}{}", r, order.iter().map(|i| i.to_string()).collect::<Vec<_>>().join(" "))
                    });
                    for ((_, (names, e, u, all)), r) in sel.iter().zip(res.iter()) {
                        let (res, order) = r.split_once('\u{1}').unwrap_or((r.as_str(), ""));
                        let order_sx = Sx::l(order.split_whitespace().map(Sx::a).collect());
                        let args = Sx::l(vec![Sx::l(vec![Sx::n(*u as u8), Sx::n(*all as u8)]), order_sx, edges_sx(e), Sx::l(names.iter().map(Sx::a).collect()), Sx::a("to-file")]);
                        out.emit("cliquemodels", &args.show(), res);
                    }
                }
                for models in [false, true] {
                    // the second pass solves the real output with the real library, on graphs with <= 4 vertices
                    let sel: Vec<&(Vec<String>, Vec<(usize, usize)>, bool, bool)> =
                        cases.iter().filter(|(_, e, _, _)| !models || e.iter().all(|(a, b)| *a < 4 && *b < 4)).collect();
                    let res = par_map(&sel, |(names, e, u, all)| {
                        let (r, order) = real_clique(&bindir, names, e, *u, *all, models);
                        format!("{}\u{1}{}", r, order.iter().map(|i| i.to_string()).collect::<Vec<_>>().join(" "))
                    });
                    for ((names, e, u, all), r) in sel.iter().zip(res.iter()) {
                        let (res, order) = r.split_once('\u{1}').unwrap_or((r.as_str(), ""));
                        let order_sx = Sx::l(order.split_whitespace().map(Sx::a).collect());
                        // the vertex spellings are ignored by the model (vertices are numbers there)
                        let args = Sx::l(vec![Sx::l(vec![Sx::n(*u as u8), Sx::n(*all as u8)]), order_sx, edges_sx(e), Sx::l(names.iter().map(Sx::a).collect())]);
                        out.emit(if models { "cliquemodels" } else { "clique" }, &args.show(), res);
                    }
                }
            }
            "graph" => {
                // requests: (V, E) grid x {-u} x {--dot}, several runs each (every run is a fresh sample)
                let runs = if o.thorough { 40 } else { 6 };
                let mut reqs: Vec<(usize, usize, bool, bool, bool)> = vec![];
                for v in 0..=6usize {
                    for u in [false, true] {
                        let maxe = if u { v * v.saturating_sub(1) / 2 } else { v * v.saturating_sub(1) };
                        for e in 0..=(maxe + 2) {
                            for dot in [false, true] {
                                for _ in 0..runs {
                                    reqs.push((v, e, u, dot, false));
                                }
                            }
                        }
                        reqs.push((v, 0, u, false, true));
                        reqs.push((v, 0, u, true, true));
                        // --complete with an explicit (ignored) EDGES positional, below and above the maximum
                        for e in [1usize, maxe, maxe + 1, 100] {
                            reqs.push((v, e + 1_000_000, u, false, true));
                        }
                    }
                }
                let res = par_map(&reqs, |(v, e, u, dot, complete)| {
                    let mut args: Vec<String> = vec![];
                    if *complete {
                        args.push("--complete".into());
                        args.push(v.to_string());
                        if *e >= 1_000_000 {
                            args.push((e - 1_000_000).to_string());
                        }
                    } else {
                        args.push(v.to_string());
                        args.push(e.to_string());
                    }
                    if *u {
                        args.push("-u".into());
                    }
                    if *dot {
                        args.push("--dot".into());
                    }
                    match run_gen(&bindir, "random_graph_gen", &args, None) {
                        Err(x) => x,
                        Ok(o) => match parse_edges(&o, *dot, *u) {
                            None => "(unparsable)".into(),
                            Some(es) => {
                                let mut v2 = vec![];
                                for (a, b) in es {
                                    match (a.strip_prefix('v').and_then(|x| x.parse::<usize>().ok()), b.strip_prefix('v').and_then(|x| x.parse::<usize>().ok())) {
                                        (Some(x), Some(y)) => v2.push((x, y)),
                                        _ => return "(unparsable)".into(),
                                    }
                                }
                                edges_sx(&v2).show()
                            }
                        },
                    }
                });
                for ((v, e, u, _dot, complete), r) in reqs.iter().zip(res.iter()) {
                    let ee = if *complete { if *u { v * v.saturating_sub(1) / 2 } else { v * v.saturating_sub(1) } } else { *e };
                    let outsx = if r == "(err)" { "err".to_string() } else { r.clone() };
                    if r == "(panic)" || r == "(unparsable)" || r == "(timeout)" {
                        out.emit("graphcheck", &format!("(({} {} {}) err)", v, ee, *u as u8), r);
                    } else {
                        out.emit("graphcheck", &format!("(({} {} {}) {})", v, ee, *u as u8, outsx), "(accept)");
                    }
                }
                // --convert and --colors on small edge lists (vertices v<i>)
                let nconv = if o.thorough { 5_000 } else { 400 };
                // vertex i is spelled pools[pool][i]; the model works on the indices
                let pools: Vec<Vec<&str>> = vec![
                    vec!["v0", "v1", "v2", "v3", "v4", "v5"],
                    vec!["v1", "v10", "v2", "v20", "v3", "v30"],
                    vec!["a", "ab", "a_c1", "b", "b_", "_"],
                ];
                // names that collide pairwise under FxHash (crafted, see S-text/evalcoll): (0,1), (2,3), (4,5) collide
                let coll: Vec<&'static str> = crate::stext::colliding_names(o.seed, 3)
                    .into_iter()
                    .flat_map(|(a, b)| [a, b])
                    .map(|n| &*Box::leak(n.into_boxed_str()))
                    .collect();
                let mut pools = pools;
                if coll.len() == 6 {
                    pools.push(coll.clone());
                    pools.push(vec![coll[0], coll[2], coll[1], "x", coll[3], "y"]);
                }
                let mut inputs: Vec<(Vec<(usize, usize)>, bool, Option<usize>, usize)> = vec![];
                for mask in 1u32..64 {
                    let pairs = [(0, 1), (1, 0), (0, 2), (2, 0), (1, 2), (2, 1)];
                    let e: Vec<(usize, usize)> = (0..6).filter(|i| mask >> i & 1 == 1).map(|i| pairs[i]).collect();
                    for pool in 0..pools.len() {
                        inputs.push((e.clone(), false, None, pool));
                        inputs.push((e.clone(), true, None, pool));
                        for k in 0..=3 {
                            inputs.push((e.clone(), true, Some(k), pool));
                        }
                    }
                }
                for _ in 0..nconv {
                    let nv = 2 + rng.below(4) as usize;
                    let ne = 1 + rng.below(8) as usize;
                    let e: Vec<(usize, usize)> = (0..ne).map(|_| (rng.below(nv as u64) as usize, rng.below(nv as u64) as usize)).filter(|(a, b)| a != b).collect();
                    if e.is_empty() {
                        continue;
                    }
                    let k = if rng.chance(1, 2) { Some(rng.below(4) as usize) } else { None };
                    inputs.push((e, rng.chance(1, 2), k, rng.below(pools.len() as u64) as usize));
                }
                let dir = std::path::PathBuf::from(format!("/verif/_build/tmp/{}", std::process::id()));
                let _ = std::fs::create_dir_all(&dir);
                let idx: Vec<usize> = (0..inputs.len()).collect();
                let res = par_map(&idx, |i| {
                    let (e, u, k, pool) = &inputs[*i];
                    let names = &pools[*pool];
                    let vid = |s: &str| names.iter().position(|n| *n == s);
                    let path = if i % 3 == 0 { dir.join(format!("g{i} x\" -c & \".csv")) } else { dir.join(format!("g{i}.csv")) };
                    let csv: String = e.iter().map(|(a, b)| format!("{},{}\n", names[*a], names[*b])).collect();
                    let _ = std::fs::write(&path, csv);
                    let mut args: Vec<String> = vec!["--convert".into(), path.display().to_string()];
                    if *u {
                        args.push("-u".into());
                    }
                    if let Some(k) = k {
                        args.push("--colors".into());
                        args.push(k.to_string());
                    }
                    let r = if i % 7 == 0 {
                        // the -o path, into an existing longer file
                        run_gen_to_file(&bindir, "random_graph_gen", &args, Some("-o"), None, None, *i)
                    } else {
                        run_gen(&bindir, "random_graph_gen", &args, None)
                    };
                    let _ = std::fs::remove_file(&path);
                    match r {
                        Err(x) => x,
                        Ok(o) => match parse_edges(&o, false, *u) {
                            None => "(unparsable)".into(),
                            Some(es) => {
                                if k.is_some() {
                                    // vertices are <name>_c<k>: unordered pairs, sorted
                                    let dec = |s: &str| -> Option<String> {
                                        let (v, c) = s.rsplit_once("_c")?;
                                        Some(format!("({} {})", vid(v)?, c.parse::<usize>().ok()?))
                                    };
                                    let mut ps = vec![];
                                    for (a, b) in &es {
                                        match (dec(a), dec(b)) {
                                            (Some(x), Some(y)) => ps.push(if x <= y { format!("({x} {y})") } else { format!("({y} {x})") }),
                                            _ => return "(unparsable)".into(),
                                        }
                                    }
                                    let n0 = ps.len();
                                    ps.sort();
                                    ps.dedup();
                                    if ps.len() != n0 {
                                        return "(duplicate-edge)".into();
                                    }
                                    format!("(ok ({}))", ps.join(" "))
                                } else {
                                    let mut v2 = vec![];
                                    for (a, b) in es {
                                        match (vid(&a), vid(&b)) {
                                            (Some(x), Some(y)) => v2.push((x, y)),
                                            _ => return "(unparsable)".into(),
                                        }
                                    }
                                    format!("(ok {})", edges_sx(&v2).show())
                                }
                            }
                        },
                    }
                });
                for ((e, u, k, pool), r) in inputs.iter().zip(res.iter()) {
                    let names = Sx::l(pools[*pool].iter().map(|n| Sx::a(*n)).collect()).show();
                    match k {
                        Some(k) => out.emit("colors", &format!("({} {} {} {})", k, *u as u8, edges_sx(e).show(), names), r),
                        None => out.emit("convert", &format!("({} {} {})", *u as u8, edges_sx(e).show(), names), r),
                    }
                }
                let _ = std::fs::remove_dir_all(&dir);
            }
            _ => panic!("unknown gen part {p}"),
        }
    }
}

pub fn replay(op: &str, args: &Sx, bindir: &str) -> String {
    let a = match args.list() {
        Some(a) => a,
        None => return "(harness-error args)".into(),
    };
    let num = |x: &Sx| x.atom().and_then(|s| s.parse::<usize>().ok());
    match op {
        "queens" => num(&a[0]).map(|n| real_queens(bindir, n)).unwrap_or("(harness-error)".into()),
        "queensbig" => num(&a[0]).map(|n| real_queensbig(bindir, n)).unwrap_or("(harness-error)".into()),
        "queenshuge" => num(&a[0]).map(|n| real_queenshuge(bindir, n)).unwrap_or("(harness-error)".into()),
        "queenssols" => num(&a[0]).map(|n| real_queenssols(bindir, n)).unwrap_or("(harness-error)".into()),
        "sudoku" => {
            let r = num(&a[0]).unwrap_or(1);
            let text: String = a[1].list().unwrap_or(&[]).iter().filter_map(|x| x.atom()?.split(':').next()?.parse::<u32>().ok().and_then(char::from_u32)).collect();
            real_sudoku(bindir, r, &text)
        }
        "clique" | "cliquemodels" => {
            let fl = a[0].list().unwrap_or(&[]);
            let u = fl.first().and_then(|x| x.atom()) == Some("1");
            let all = fl.get(1).and_then(|x| x.atom()) == Some("1");
            let edges: Vec<(usize, usize)> = a[2].list().unwrap_or(&[]).iter().filter_map(|e| { let l = e.list()?; Some((num(&l[0])?, num(&l[1])?)) }).collect();
            let names: Vec<String> = a.get(3).and_then(|x| x.list()).unwrap_or(&[]).iter().filter_map(|x| x.atom().map(|s| s.to_string())).collect();
            if a.get(4).and_then(|x| x.atom()) == Some("to-file") {
                // through files, under the unfriendly input path
                real_clique_x(bindir, &names, &edges, u, all, op == "cliquemodels", Some(8)).0
            } else {
                real_clique(bindir, &names, &edges, u, all, op == "cliquemodels").0
            }
        }
        _ => "(harness-replay-unsupported)".into(),
    }
}
