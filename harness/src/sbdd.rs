//! Suite S-bdd: operation programs over the public methods of `BDDEnv<usize>` (src/bdd.rs).
//! The same terms are interpreted by `run` in coq/theories/Check/Prog.v (extracted).
use crate::sx::{Rng, Sx};
use crate::{Opts, Out};
use rsbdd::bdd::{BDDEnv, BDD};
use rsbdd::TruthTableEntry;
use std::cell::Cell;
use std::collections::HashMap;
use std::panic::{catch_unwind, AssertUnwindSafe};
use std::rc::Rc;

pub type B = Rc<BDD<usize>>;

pub const FP_CAP: usize = 300;

pub fn show(b: &BDD<usize>, out: &mut String) {
    match b {
        BDD::False => out.push('F'),
        BDD::True => out.push('T'),
        BDD::Choice(t, v, f) => {
            out.push_str("(N ");
            show(t, out);
            out.push(' ');
            out.push_str(&v.to_string());
            out.push(' ');
            show(f, out);
            out.push(')');
        }
    }
}
pub fn bdd_str(b: &BDD<usize>) -> String {
    let mut s = String::new();
    show(b, &mut s);
    s
}

/// Shannon expansion with the real mk_choice; bit `idx` of tt is the value under the assignment
/// encoded by idx (first variable = most significant bit)
pub fn build_tt(env: &BDDEnv<usize>, vars: &[usize], tt: u128, lvl: usize, idx: u32) -> B {
    if lvl == vars.len() {
        return env.mk_const((tt >> idx) & 1 == 1);
    }
    let t = build_tt(env, vars, tt, lvl + 1, idx | (1 << (vars.len() - 1 - lvl)));
    let f = build_tt(env, vars, tt, lvl + 1, idx);
    env.mk_choice(t, vars[lvl], f)
}

fn rebuild_lit(env: &BDDEnv<usize>, x: &Sx) -> Result<B, String> {
    match x {
        Sx::A(s) if s == "F" => Ok(env.mk_const(false)),
        Sx::A(s) if s == "T" => Ok(env.mk_const(true)),
        Sx::L(v) if v.len() == 4 && v[0].atom() == Some("N") => {
            let t = rebuild_lit(env, &v[1])?;
            let f = rebuild_lit(env, &v[3])?;
            let id: usize = v[2].atom().ok_or("id")?.parse().map_err(|_| "id")?;
            Ok(env.mk_choice(t, id, f))
        }
        // a node allocated directly through the public enum, not through mk_choice: not reduced, not in the table
        Sx::L(v) if v.len() == 4 && v[0].atom() == Some("R") => {
            let t = rebuild_lit(env, &v[1])?;
            let f = rebuild_lit(env, &v[3])?;
            let id: usize = v[2].atom().ok_or("id")?.parse().map_err(|_| "id")?;
            Ok(Rc::new(BDD::Choice(t, id, f)))
        }
        _ => Err(format!("lit {}", x.show())),
    }
}

struct Diverge;

pub struct Interp<'a> {
    pub env: &'a BDDEnv<usize>,
    /// build every literal operand in an environment of its own (operands from different
    /// environments meet in one operation)
    pub xenv: bool,
}

thread_local! {
    /// results of earlier steps of the current history (suite S-hist); `(h k)` refers to them
    pub static HANDLES: std::cell::RefCell<Vec<B>> = std::cell::RefCell::new(vec![]);
}

fn usz(x: &Sx) -> Result<usize, String> {
    x.atom().ok_or("atom")?.parse::<usize>().map_err(|e| e.to_string())
}
fn i64of(x: &Sx) -> Result<i64, String> {
    x.atom().ok_or("atom")?.parse::<i64>().map_err(|e| e.to_string())
}

impl<'a> Interp<'a> {
    fn list(&self, x: &Sx, cur: &Option<B>) -> Result<Vec<B>, String> {
        x.list().ok_or("list")?.iter().map(|e| self.eval(e, cur)).collect()
    }
    /// `cur` is the argument of the enclosing fp transformer (the model starts with F)
    pub fn eval(&self, x: &Sx, cur: &Option<B>) -> Result<B, String> {
        let env = self.env;
        match x {
            Sx::A(s) => match s.as_str() {
                "X" => Ok(cur.clone().unwrap_or_else(|| env.mk_const(false))),
                "F" => Ok(env.mk_const(false)),
                "T" => Ok(env.mk_const(true)),
                _ => Err(format!("atom {s}")),
            },
            Sx::L(v) => {
                let h = v.first().and_then(|h| h.atom()).ok_or("head")?;
                let a = &v[1..];
                let e1 = |i: usize| self.eval(&a[i], cur);
                match (h, a.len()) {
                    ("R", 3) => rebuild_lit(env, x),
                    ("N", 3) => {
                        if self.xenv {
                            rebuild_lit(&BDDEnv::new(), x)
                        } else {
                            rebuild_lit(env, x)
                        }
                    }
                    ("tt", 2) => {
                        let vars: Vec<usize> = a[0].list().ok_or("vars")?.iter().map(usz).collect::<Result<_, _>>()?;
                        let tt: u128 = a[1].atom().ok_or("tt")?.parse().map_err(|_| "tt")?;
                        if self.xenv {
                            Ok(build_tt(&BDDEnv::new(), &vars, tt, 0, 0))
                        } else {
                            Ok(build_tt(env, &vars, tt, 0, 0))
                        }
                    }
                    ("h", 1) => {
                        let k = usz(&a[0])?;
                        HANDLES.with(|h| h.borrow().get(k).cloned()).ok_or_else(|| "handle".to_string())
                    }
                    ("var", 1) => Ok(env.var(usz(&a[0])?)),
                    ("const", 1) => Ok(env.mk_const(a[0].atom() == Some("1"))),
                    ("not", 1) => Ok(env.not(e1(0)?)),
                    ("and", 2) => Ok(env.and(e1(0)?, e1(1)?)),
                    ("or", 2) => Ok(env.or(e1(0)?, e1(1)?)),
                    ("imp", 2) => Ok(env.implies(e1(0)?, e1(1)?)),
                    ("eq", 2) => Ok(env.eq(e1(0)?, e1(1)?)),
                    ("xor", 2) => Ok(env.xor(e1(0)?, e1(1)?)),
                    ("nor", 2) => Ok(env.nor(e1(0)?, e1(1)?)),
                    ("nand", 2) => Ok(env.nand(e1(0)?, e1(1)?)),
                    ("ite", 3) => Ok(env.ite(e1(0)?, e1(1)?, e1(2)?)),
                    ("aln", 2) => Ok(env.aln(&self.list(&a[0], cur)?, i64of(&a[1])?)),
                    ("amn", 2) => Ok(env.amn(&self.list(&a[0], cur)?, i64of(&a[1])?)),
                    ("exn", 2) => Ok(env.exn(&self.list(&a[0], cur)?, i64of(&a[1])?)),
                    ("cleq", 2) => Ok(env.count_leq(&self.list(&a[0], cur)?, &self.list(&a[1], cur)?)),
                    ("clt", 2) => Ok(env.count_lt(&self.list(&a[0], cur)?, &self.list(&a[1], cur)?)),
                    ("cgeq", 2) => Ok(env.count_geq(&self.list(&a[0], cur)?, &self.list(&a[1], cur)?)),
                    ("cgt", 2) => Ok(env.count_gt(&self.list(&a[0], cur)?, &self.list(&a[1], cur)?)),
                    ("ceq", 2) => Ok(env.count_eq(&self.list(&a[0], cur)?, &self.list(&a[1], cur)?)),
                    ("ex", 2) => {
                        let vs: Vec<usize> = a[0].list().ok_or("vs")?.iter().map(usz).collect::<Result<_, _>>()?;
                        Ok(env.exists(vs, e1(1)?))
                    }
                    ("ex1", 2) => Ok(env.exists_impl(&usz(&a[0])?, e1(1)?)),
                    ("all", 2) => {
                        let vs: Vec<usize> = a[0].list().ok_or("vs")?.iter().map(usz).collect::<Result<_, _>>()?;
                        Ok(env.all(vs, e1(1)?))
                    }
                    ("fp", 2) => {
                        let init = e1(0)?;
                        let count = Cell::new(0usize);
                        let err: Cell<Option<String>> = Cell::new(None);
                        let r = env.fp(init, |s| {
                            count.set(count.get() + 1);
                            if count.get() > FP_CAP {
                                std::panic::panic_any(Diverge);
                            }
                            match self.eval(&a[1], &Some(s)) {
                                Ok(r) => r,
                                Err(e) => {
                                    err.set(Some(e));
                                    std::panic::panic_any(Diverge)
                                }
                            }
                        });
                        Ok(r)
                    }
                    ("model", 1) => Ok(env.model(e1(0)?)),
                    ("retain", 2) => {
                        let f = match a[0].atom() {
                            Some("t") => TruthTableEntry::True,
                            Some("f") => TruthTableEntry::False,
                            _ => TruthTableEntry::Any,
                        };
                        Ok(env.retain_choice_bottom_up(e1(1)?, f))
                    }
                    ("clean", 1) => Ok(env.clean(e1(0)?)),
                    ("mk", 3) => {
                        let t = e1(0)?;
                        let f = e1(2)?;
                        Ok(env.mk_choice(t, usz(&a[1])?, f))
                    }
                    _ => Err(format!("expr {}", x.show())),
                }
            }
        }
    }
}

/// run one case on the real library; every case gets a fresh environment unless `env` is given
pub fn run_case(env: &BDDEnv<usize>, x: &Sx) -> String {
    run_case_x(env, x, false)
}

pub fn run_case_x(env: &BDDEnv<usize>, x: &Sx, xenv: bool) -> String {
    let it = Interp { env, xenv };
    if x.head() == Some("infer") {
        let a = x.list().unwrap();
        let r = catch_unwind(AssertUnwindSafe(|| {
            let e = it.eval(&a[1], &None)?;
            let v = usz(&a[2])?;
            Ok::<(bool, bool), String>(env.infer(e, v))
        }));
        return match r {
            Ok(Ok((p, q))) => format!("(ok ({} {}))", p as u8, q as u8),
            Ok(Err(e)) => format!("(harness-error {e})"),
            Err(p) => {
                if p.downcast_ref::<Diverge>().is_some() {
                    "(diverge)".into()
                } else {
                    "(panic)".into()
                }
            }
        };
    }
    let r = catch_unwind(AssertUnwindSafe(|| it.eval(x, &None)));
    match r {
        Ok(Ok(b)) => {
            // the public predicates on the answer say what the structure is (C01: valid = the true leaf, unsatisfiable = the false leaf)
            let want = match b.as_ref() {
                rsbdd::bdd::BDD::True => (true, false, true, false),
                rsbdd::bdd::BDD::False => (false, true, true, false),
                rsbdd::bdd::BDD::Choice(..) => (false, false, false, true),
            };
            let got = (b.is_true(), b.is_false(), b.is_const(), b.is_choice());
            if got != want {
                return format!("(predicates-disagree-with-structure is_true={} is_false={} is_const={} is_choice={})", got.0, got.1, got.2, got.3);
            }
            let mut s = String::from("(ok ");
            show(&b, &mut s);
            s.push(')');
            s
        }
        Ok(Err(e)) => format!("(harness-error {e})"),
        Err(p) => {
            if p.downcast_ref::<Diverge>().is_some() {
                "(diverge)".into()
            } else {
                "(panic)".into()
            }
        }
    }
}

fn tt(vars: &[usize], n: u128) -> Sx {
    Sx::op("tt", vec![Sx::l(vars.iter().map(Sx::n).collect()), Sx::n(n)])
}

pub struct Gen<'a> {
    out: &'a mut Out,
    shared: BDDEnv<usize>,
    hashes: HashMap<String, u64>,
    fresh_every: u64,
    n: u64,
}

impl<'a> Gen<'a> {
    fn new(out: &'a mut Out) -> Self {
        Gen { out, shared: BDDEnv::new(), hashes: HashMap::new(), fresh_every: 7, n: 0 }
    }
    /// Most cases run in one long-lived environment (so history is exercised as a side effect);
    /// every `fresh_every`-th case runs in a fresh one.
    fn case(&mut self, x: Sx) {
        self.n += 1;
        let r = if self.n % self.fresh_every == 0 {
            let env = BDDEnv::new();
            run_case(&env, &x)
        } else if self.n % 5 == 0 && !x.show().contains("clean") {
            // literal operands come from environments of their own (not for `clean`, whose
            // contract is that its argument already lives in this environment's table)
            if self.shared.size() > 200_000 {
                self.shared = BDDEnv::new();
            }
            run_case_x(&self.shared, &x, true)
        } else {
            if self.shared.size() > 200_000 {
                self.shared = BDDEnv::new();
            }
            run_case(&self.shared, &x)
        };
        self.out.emit("run", &x.show(), &r);
    }
    /// as `case`, and additionally: operands re-serialise unchanged after the call, and equal results hash equally
    fn case_checked(&mut self, x: Sx) {
        self.n += 1;
        let env = BDDEnv::new();
        let it = Interp { env: &env, xenv: false };
        let args: Vec<Sx> = x.list().map(|v| v[1..].to_vec()).unwrap_or_default();
        let ops: Vec<Option<B>> = args.iter().map(|a| if a.head() == Some("tt") { it.eval(a, &None).ok() } else { None }).collect();
        let before: Vec<Option<String>> = ops.iter().map(|o| o.as_ref().map(|b| bdd_str(b))).collect();
        // evaluate with the operand handles we hold, so that "operands unchanged" is about these very objects
        let r = catch_unwind(AssertUnwindSafe(|| it.eval(&x, &None)));
        let mut res = match r {
            Ok(Ok(b)) => {
                let s = bdd_str(&b);
                let h = b.get_hash();
                match self.hashes.get(&s) {
                    Some(h0) if *h0 != h => "(hash-differs-for-equal-diagrams)".to_string(),
                    _ => {
                        if self.hashes.len() < 100_000 {
                            self.hashes.insert(s.clone(), h);
                        }
                        format!("(ok {s})")
                    }
                }
            }
            Ok(Err(e)) => format!("(harness-error {e})"),
            Err(_) => "(panic)".into(),
        };
        let after: Vec<Option<String>> = ops.iter().map(|o| o.as_ref().map(|b| bdd_str(b))).collect();
        if before != after {
            res = "(operand-changed)".into();
        }
        self.out.emit("run", &x.show(), &res);
    }
}

const BIN: [&str; 7] = ["and", "or", "imp", "eq", "xor", "nor", "nand"];

fn triple_pairs(thorough: bool) -> Vec<([usize; 3], [usize; 3])> {
    let mut v = vec![([0, 2, 4], [1, 3, 4])];
    if thorough {
        v.push(([0, 1, 2], [0, 1, 2]));
        v.push(([1, 3, 5], [0, 2, 4]));
        v.push(([0, 1, 2], [3, 4, 5]));
        v.push(([2, 5, 9], [2, 3, 9]));
    }
    v
}

pub fn part_conn(out: &mut Out, o: &Opts) {
    let mut g = Gen::new(out);
    // literals, var, const
    for vars in [[0usize, 1, 2], [0, 2, 4], [1, 3, 4], [2, 5, 9]] {
        for n in 0..256u128 {
            g.case(tt(&vars, n));
            g.case(Sx::op("not", vec![tt(&vars, n)]));
        }
    }
    for v in 0..12usize {
        g.case(Sx::op("var", vec![Sx::n(v)]));
    }
    g.case(Sx::op("const", vec![Sx::n(0)]));
    g.case(Sx::op("const", vec![Sx::n(1)]));
    // exhaustive pairs
    let stride = if o.thorough { 1 } else { 1 };
    for (va, vb) in triple_pairs(o.thorough) {
        for i in (0..256u128).step_by(stride) {
            for j in 0..256u128 {
                for op in BIN {
                    g.case(Sx::op(op, vec![tt(&va, i), tt(&vb, j)]));
                }
            }
        }
    }
    // operands that did not come out of mk_choice (ordered, with redundant and dead tests): the connectives are stated for every diagram
    {
        let leaf = |b: bool| Sx::a(if b { "T" } else { "F" });
        let node = |t: Sx, v: usize, f: Sx| Sx::l(vec![Sx::a("R"), t, Sx::n(v), f]);
        let mut subs: Vec<Sx> = vec![leaf(false), leaf(true)];
        for t in [false, true] {
            for f in [false, true] {
                subs.push(node(leaf(t), 1, leaf(f)));
            }
        }
        let mut raws: Vec<Sx> = vec![];
        for t in &subs {
            for f in &subs {
                raws.push(node(t.clone(), 0, f.clone()));
            }
        }
        for a in &raws {
            g.case(Sx::op("not", vec![a.clone()]));
            for b in &raws {
                for op in BIN {
                    g.case(Sx::op(op, vec![a.clone(), b.clone()]));
                }
            }
            for n in [23u128, 105, 232] {
                g.case(Sx::op("and", vec![a.clone(), tt(&[0, 1, 2], n)]));
                g.case(Sx::op("or", vec![tt(&[1, 2, 3], n), a.clone()]));
            }
        }
    }
    // ite: all triples of two-variable functions
    for (va, vb, vc) in [([0usize, 1], [1usize, 2], [0usize, 2]), ([1, 2], [1, 2], [0, 3])] {
        for i in 0..16u128 {
            for j in 0..16u128 {
                for k in 0..16u128 {
                    g.case(Sx::op("ite", vec![tt(&va, i), tt(&vb, j), tt(&vc, k)]));
                }
            }
        }
    }
    // operand immutability + hash consistency on a strided subset
    let step = if o.thorough { 3 } else { 17 };
    for i in (0..256u128).step_by(step) {
        for j in (0..256u128).step_by(5) {
            for op in BIN {
                g.case_checked(Sx::op(op, vec![tt(&[0, 2, 4], i), tt(&[1, 3, 4], j)]));
            }
        }
    }
    // random larger operands
    let mut rng = Rng::new(o.seed ^ 0xC0);
    let n = if o.thorough { 1_000_000 } else { 4_000 };
    for _ in 0..n {
        let a = rand_lit(&mut rng, 6);
        let b = rand_lit(&mut rng, 6);
        let op = *rng.pick(&BIN);
        if rng.chance(1, 8) {
            let c = rand_lit(&mut rng, 5);
            g.case(Sx::op("ite", vec![a, b, c]));
        } else {
            g.case(Sx::op(op, vec![a, b]));
        }
    }
}

/// random truth table over a random sorted subset (size <= maxv) of sparse ids 0..14
fn rand_lit(rng: &mut Rng, maxv: u64) -> Sx {
    let k = rng.below(maxv + 1) as usize;
    let mut ids: Vec<usize> = (0..14).collect();
    for i in 0..k {
        let j = i + rng.below((ids.len() - i) as u64) as usize;
        ids.swap(i, j);
    }
    let mut vars: Vec<usize> = ids[..k].to_vec();
    vars.sort_unstable();
    let bits = 1u32 << k;
    let mut n: u128 = ((rng.next() as u128) << 64) | rng.next() as u128;
    if bits < 128 {
        n &= (1u128 << bits) - 1;
    }
    // bias towards sparse / dense tables sometimes
    match rng.below(6) {
        0 => n &= ((rng.next() as u128) << 64) | rng.next() as u128,
        1 => {
            n |= ((rng.next() as u128) << 64) | rng.next() as u128;
            if bits < 128 {
                n &= (1u128 << bits) - 1;
            }
        }
        _ => {}
    }
    tt(&vars, n)
}

fn lists_upto(ids: &[usize], maxlen: usize) -> Vec<Vec<usize>> {
    let mut all: Vec<Vec<usize>> = vec![vec![]];
    let mut frontier: Vec<Vec<usize>> = vec![vec![]];
    for _ in 0..maxlen {
        let mut next = vec![];
        for l in &frontier {
            for &i in ids {
                let mut m = l.clone();
                m.push(i);
                next.push(m);
            }
        }
        all.extend(next.iter().cloned());
        frontier = next;
    }
    all
}

pub fn part_quant(out: &mut Out, o: &Opts) {
    let mut g = Gen::new(out);
    let lists = lists_upto(&[0, 1, 2, 3, 4], 3);
    let vars = [1usize, 2, 3];
    // unreduced ordered operands (nodes allocated through the public enum)
    {
        let leaf = |b: bool| Sx::a(if b { "T" } else { "F" });
        let node = |t: Sx, v: usize, f: Sx| Sx::l(vec![Sx::a("R"), t, Sx::n(v), f]);
        let mut subs: Vec<Sx> = vec![leaf(false), leaf(true)];
        for t in [false, true] {
            for f in [false, true] {
                subs.push(node(leaf(t), 2, leaf(f)));
            }
        }
        for t in &subs {
            for f in &subs {
                let a = node(t.clone(), 1, f.clone());
                for l in lists_upto(&[0, 1, 2, 3], 2) {
                    let vs = Sx::l(l.iter().map(Sx::n).collect());
                    g.case(Sx::op("ex", vec![vs.clone(), a.clone()]));
                    g.case(Sx::op("all", vec![vs, a.clone()]));
                }
                for v in 0..4usize {
                    g.case(Sx::op("ex1", vec![Sx::n(v), a.clone()]));
                }
            }
        }
    }
    for n in 0..256u128 {
        for l in &lists {
            let vs = Sx::l(l.iter().map(Sx::n).collect());
            g.case(Sx::op("ex", vec![vs.clone(), tt(&vars, n)]));
            g.case(Sx::op("all", vec![vs, tt(&vars, n)]));
        }
        for v in 0..5usize {
            g.case(Sx::op("ex1", vec![Sx::n(v), tt(&vars, n)]));
        }
    }
    let mut rng = Rng::new(o.seed ^ 0xC4);
    let n = if o.thorough { 1_000_000 } else { 5_000 };
    for _ in 0..n {
        let a = rand_lit(&mut rng, 7);
        let len = rng.below(6);
        let vs = Sx::l((0..len).map(|_| Sx::n(rng.below(15))).collect());
        let op = if rng.chance(1, 2) { "ex" } else { "all" };
        g.case(Sx::op(op, vec![vs, a]));
    }
}

pub fn part_count(out: &mut Out, o: &Opts) {
    let mut g = Gen::new(out);
    let vars = [0usize, 1];
    let fl = lists_upto(&(0..16).collect::<Vec<_>>(), if o.thorough { 3 } else { 2 });
    let mk = |l: &Vec<usize>| Sx::l(l.iter().map(|&n| tt(&vars, n as u128)).collect());
    for l in &fl {
        for n in -3..=6i64 {
            for k in ["aln", "amn", "exn"] {
                g.case(Sx::op(k, vec![mk(l), Sx::n(n)]));
            }
        }
    }
    // length 3 on a reduced operand alphabet (quick and thorough)
    let red: Vec<usize> = vec![0, 15, 10, 12, 8, 6, 3];
    for l in lists_upto(&red, 3).iter().filter(|l| l.len() == 3) {
        for n in -1..=4i64 {
            for k in ["aln", "amn", "exn"] {
                g.case(Sx::op(k, vec![mk(l), Sx::n(n)]));
            }
        }
    }
    // list versus list
    let small = lists_upto(&(0..16).collect::<Vec<_>>(), if o.thorough { 2 } else { 1 });
    let red2 = lists_upto(&red, 2);
    let mut pairs: Vec<(Vec<usize>, Vec<usize>)> = vec![];
    for a in &small {
        for b in &small {
            pairs.push((a.clone(), b.clone()));
        }
    }
    for a in &red2 {
        for b in &red2 {
            pairs.push((a.clone(), b.clone()));
        }
    }
    for (a, b) in &pairs {
        for k in ["cleq", "clt", "cgeq", "cgt", "ceq"] {
            g.case(Sx::op(k, vec![mk(a), mk(b)]));
        }
    }
    // random: longer lists, arbitrary operands, bounds near +-len and near the i64 limits
    let mut rng = Rng::new(o.seed ^ 0xC5);
    let n = if o.thorough { 100_000 } else { 3_000 };
    for _ in 0..n {
        let len = rng.below(7) as usize;
        let l = Sx::l((0..len).map(|_| rand_lit(&mut rng, 4)).collect());
        if rng.chance(2, 3) {
            let bound: i64 = match rng.below(6) {
                0 => i64::MIN + len as i64 + rng.below(3) as i64,
                1 => i64::MAX - len as i64 - rng.below(3) as i64,
                2 => -(len as i64) - rng.range(0, 2),
                _ => rng.range(-2, len as i64 + 2),
            };
            let k = *rng.pick(&["aln", "amn", "exn"]);
            g.case(Sx::op(k, vec![l, Sx::n(bound)]));
        } else {
            let len2 = rng.below(5) as usize;
            let l2 = Sx::l((0..len2).map(|_| rand_lit(&mut rng, 4)).collect());
            let k = *rng.pick(&["cleq", "clt", "cgeq", "cgt", "ceq"]);
            g.case(Sx::op(k, vec![l, l2]));
        }
    }
}

/// a random transformer body over X and literals on `vars` (<= 3 variables, so every iteration
/// sequence either reaches a fixed point within 256 steps or cycles)
fn rand_body(rng: &mut Rng, vars: &[usize], depth: u32, mono: bool) -> Sx {
    let lit = |rng: &mut Rng| {
        let bits = 1u32 << vars.len();
        tt(vars, (rng.next() as u128) & ((1u128 << bits) - 1))
    };
    if depth == 0 || rng.chance(1, 5) {
        return if rng.chance(1, 2) { Sx::a("X") } else { lit(rng) };
    }
    let sub = |rng: &mut Rng| rand_body(rng, vars, depth - 1, mono);
    let nchoices = if mono { 7 } else { 11 };
    match rng.below(nchoices) {
        0 => Sx::op("and", vec![sub(rng), sub(rng)]),
        1 => Sx::op("or", vec![sub(rng), sub(rng)]),
        2 => Sx::op("ite", vec![lit(rng), sub(rng), sub(rng)]),
        3 => Sx::op("ex", vec![Sx::l(vec![Sx::n(*rng.pick(vars))]), sub(rng)]),
        4 => Sx::op("all", vec![Sx::l(vec![Sx::n(*rng.pick(vars))]), sub(rng)]),
        5 => Sx::op("aln", vec![Sx::l(vec![sub(rng), sub(rng), lit(rng)]), Sx::n(rng.range(0, 3))]),
        6 => Sx::op("not", vec![Sx::op("not", vec![sub(rng)])]),
        7 => Sx::op("not", vec![sub(rng)]),
        8 => Sx::op("xor", vec![sub(rng), sub(rng)]),
        9 => Sx::op("imp", vec![sub(rng), sub(rng)]),
        _ => Sx::op("exn", vec![Sx::l(vec![sub(rng), sub(rng)]), Sx::n(1)]),
    }
}

pub fn part_fp(out: &mut Out, o: &Opts) {
    let mut g = Gen::new(out);
    let vars = [1usize, 2, 4];
    // fixed patterns with 0,1,2,3-step convergence: X := lit | (X & lit) style chains
    for i in 0..256u128 {
        for init in ["F", "T"] {
            g.case(Sx::op("fp", vec![Sx::a(init), tt(&vars, i)]));
            g.case(Sx::op("fp", vec![Sx::a(init), Sx::op("or", vec![tt(&vars, i), Sx::op("ex", vec![Sx::l(vec![Sx::n(2)]), Sx::a("X")])])]));
            g.case(Sx::op("fp", vec![Sx::a(init), Sx::op("and", vec![tt(&vars, i), Sx::op("all", vec![Sx::l(vec![Sx::n(1)]), Sx::a("X")])])]));
        }
        g.case(Sx::op("fp", vec![tt(&vars, i), Sx::a("X")]));
        g.case(Sx::op("fp", vec![tt(&vars, i), Sx::op("not", vec![Sx::a("X")])]));
    }
    let mut rng = Rng::new(o.seed ^ 0xC6);
    let n = if o.thorough { 400_000 } else { 3_000 };
    for k in 0..n {
        let mono = k % 4 != 0;
        let body = rand_body(&mut rng, &vars, 3, mono);
        let init = match rng.below(4) {
            0 => Sx::a("T"),
            1 => tt(&vars, (rng.next() as u128) & 0xff),
            _ => Sx::a("F"),
        };
        let mut e = Sx::op("fp", vec![init, body]);
        if rng.chance(1, 6) {
            // nested: an outer fixed point whose body contains the inner one
            e = Sx::op("fp", vec![Sx::a("F"), Sx::op("or", vec![Sx::a("X"), e])]);
        }
        g.case(e);
    }
}

pub fn part_unary(out: &mut Out, o: &Opts, which: &str) {
    let mut g = Gen::new(out);
    let varsets: Vec<[usize; 4]> = if o.thorough { vec![[0, 1, 2, 3], [1, 3, 4, 6]] } else { vec![[0, 1, 2, 3]] };
    for vars in &varsets {
        for n in 0..65536u128 {
            let a = tt(vars, n);
            match which {
                "model" => {
                    g.case(Sx::op("model", vec![a.clone()]));
                    if n % 16 == 0 || o.thorough {
                        for v in 0..5usize {
                            g.case(Sx::op("infer", vec![a.clone(), Sx::n(v)]));
                            g.case(Sx::op("infer", vec![Sx::op("model", vec![a.clone()]), Sx::n(v)]));
                        }
                    }
                }
                "retain" => {
                    for f in ["t", "f", "a"] {
                        g.case(Sx::op("retain", vec![Sx::a(f), a.clone()]));
                    }
                }
                _ => {
                    g.case(Sx::op("clean", vec![a.clone()]));
                }
            }
        }
    }
    // diagrams that did not come out of mk_choice (the enum is public): ordered, but with redundant tests and "dead" nodes whose
    // branches are both unsatisfiable; model, infer and retain are stated for every diagram
    if which == "model" || which == "retain" {
        let leaf = |b: bool| Sx::a(if b { "T" } else { "F" });
        let node = |t: Sx, v: usize, f: Sx| Sx::l(vec![Sx::a("R"), t, Sx::n(v), f]);
        let mut subs: Vec<Sx> = vec![leaf(false), leaf(true)];
        for v in [1usize, 2] {
            for t in [false, true] {
                for f in [false, true] {
                    subs.push(node(leaf(t), v, leaf(f)));
                }
            }
        }
        let mut raws: Vec<Sx> = vec![];
        for t in &subs {
            for f in &subs {
                raws.push(node(t.clone(), 0, f.clone()));
            }
        }
        let dead = node(leaf(false), 2, leaf(false));
        let full = node(leaf(true), 2, leaf(true));
        for inner in [dead, full] {
            raws.push(node(node(inner.clone(), 1, leaf(false)), 0, leaf(true)));
            raws.push(node(node(inner.clone(), 1, node(leaf(true), 3, leaf(false))), 0, node(leaf(true), 2, leaf(false))));
            raws.push(node(leaf(false), 0, node(leaf(true), 1, inner.clone())));
        }
        for a in raws {
            if which == "model" {
                g.case(Sx::op("model", vec![a.clone()]));
                for v in 0..3usize {
                    g.case(Sx::op("infer", vec![a.clone(), Sx::n(v)]));
                }
                g.case(Sx::op("model", vec![Sx::op("and", vec![Sx::op("var", vec![Sx::n(0)]), a.clone()])]));
            } else {
                for f in ["t", "f", "a"] {
                    g.case(Sx::op("retain", vec![Sx::a(f), a.clone()]));
                }
            }
        }
    }
    let mut rng = Rng::new(o.seed ^ 0xC7);
    let n = if o.thorough { 100_000 } else { 3_000 };
    for _ in 0..n {
        let a = rand_lit(&mut rng, 7);
        match which {
            "model" => {
                g.case(Sx::op("model", vec![a.clone()]));
                g.case(Sx::op("infer", vec![a, Sx::n(rng.below(14))]));
            }
            "retain" => g.case(Sx::op("retain", vec![Sx::a(*rng.pick(&["t", "f", "a"])), a])),
            _ => g.case(Sx::op("clean", vec![a])),
        }
    }
}

/// random programs mixing all operations (C02: "whatever sequence of operations")
fn rand_prog(rng: &mut Rng, depth: u32, in_fp: bool) -> Sx {
    if depth == 0 || rng.chance(1, 6) {
        if in_fp && rng.chance(1, 3) {
            return Sx::a("X");
        }
        return match rng.below(8) {
            0 => Sx::op("var", vec![Sx::n(rng.below(10))]),
            1 => Sx::op("const", vec![Sx::n(rng.below(2))]),
            _ => rand_lit(rng, 4),
        };
    }
    let s = |rng: &mut Rng| rand_prog(rng, depth - 1, in_fp);
    let vs = |rng: &mut Rng| {
        let len = rng.below(4);
        Sx::l((0..len).map(|_| Sx::n(rng.below(12))).collect())
    };
    let lst = |rng: &mut Rng| {
        let len = rng.below(4);
        Sx::l((0..len).map(|_| rand_prog(rng, depth - 1, in_fp)).collect())
    };
    match rng.below(24) {
        0 => Sx::op("not", vec![s(rng)]),
        1 => Sx::op("and", vec![s(rng), s(rng)]),
        2 => Sx::op("or", vec![s(rng), s(rng)]),
        3 => Sx::op("imp", vec![s(rng), s(rng)]),
        4 => Sx::op("eq", vec![s(rng), s(rng)]),
        5 => Sx::op("xor", vec![s(rng), s(rng)]),
        6 => Sx::op("nor", vec![s(rng), s(rng)]),
        7 => Sx::op("nand", vec![s(rng), s(rng)]),
        8 => Sx::op("ite", vec![s(rng), s(rng), s(rng)]),
        9 => Sx::op("aln", vec![lst(rng), Sx::n(rng.range(-1, 4))]),
        10 => Sx::op("amn", vec![lst(rng), Sx::n(rng.range(-1, 4))]),
        11 => Sx::op("exn", vec![lst(rng), Sx::n(rng.range(-1, 4))]),
        12 => Sx::op(*rng.pick(&["cleq", "clt", "cgeq", "cgt", "ceq"]), vec![lst(rng), lst(rng)]),
        13 => Sx::op("ex", vec![vs(rng), s(rng)]),
        14 => Sx::op("all", vec![vs(rng), s(rng)]),
        15 => Sx::op("ex1", vec![Sx::n(rng.below(12)), s(rng)]),
        16 => Sx::op("model", vec![s(rng)]),
        17 => Sx::op("retain", vec![Sx::a(*rng.pick(&["t", "f", "a"])), s(rng)]),
        18 => Sx::op("clean", vec![s(rng)]),
        19 if !in_fp => {
            // monotone-by-construction transformer over few variables
            let body = rand_body(rng, &[1, 2, 4], 2, true);
            Sx::op("fp", vec![Sx::a(if rng.chance(1, 2) { "F" } else { "T" }), body])
        }
        _ => Sx::op("and", vec![s(rng), s(rng)]),
    }
}

pub fn part_mixed(out: &mut Out, o: &Opts) {
    let mut g = Gen::new(out);
    let mut rng = Rng::new(o.seed ^ 0xC2);
    let n = if o.thorough { 1_500_000 } else { 6_000 };
    for _ in 0..n {
        let e = rand_prog(&mut rng, 3, false);
        g.case(e);
    }
}

/// many variables: chains and lists over 33..130 variable ids, sizes the truth-table literals cannot reach
pub fn part_wide(out: &mut Out, o: &Opts) {
    let mut g = Gen::new(out);
    let ns: &[usize] = if o.thorough { &[31, 32, 33, 63, 64, 65, 66, 100, 127, 128, 129, 200] } else { &[33, 64, 65, 70, 129] };
    let var = |i: usize| Sx::op("var", vec![Sx::n(i)]);
    let chain = |op: &str, n: usize, neg_every: usize| -> Sx {
        let mut e = var(n - 1);
        for i in (0..n - 1).rev() {
            let lit = if neg_every > 0 && i % neg_every == 2 { Sx::op("not", vec![var(i)]) } else { var(i) };
            e = Sx::op(op, vec![lit, e]);
        }
        e
    };
    for &n in ns {
        let conj = chain("and", n, 5);
        let disj = chain("or", n, 7);
        g.case(conj.clone());
        g.case(disj.clone());
        g.case(Sx::op("not", vec![conj.clone()]));
        g.case(Sx::op("imp", vec![conj.clone(), disj.clone()]));
        g.case(Sx::op("eq", vec![conj.clone(), Sx::op("not", vec![disj.clone()])]));
        g.case(Sx::op("model", vec![conj.clone()]));
        g.case(Sx::op("model", vec![disj.clone()]));
        for f in ["t", "f"] {
            g.case(Sx::op("retain", vec![Sx::a(f), conj.clone()]));
            g.case(Sx::op("retain", vec![Sx::a(f), disj.clone()]));
        }
        let all_ids = Sx::l((0..n).map(Sx::n).collect());
        let odd_ids = Sx::l((0..n).filter(|i| i % 2 == 1).map(Sx::n).collect());
        let rev_ids = Sx::l((0..n).rev().map(Sx::n).collect());
        g.case(Sx::op("ex", vec![odd_ids.clone(), conj.clone()]));
        g.case(Sx::op("all", vec![odd_ids, disj.clone()]));
        g.case(Sx::op("ex", vec![rev_ids, conj.clone()]));
        g.case(Sx::op("all", vec![all_ids, disj.clone()]));
        g.case(Sx::op("infer", vec![conj.clone(), Sx::n(n - 1)]));
        g.case(Sx::op("infer", vec![conj.clone(), Sx::n(2)]));
        g.case(Sx::op("fp", vec![Sx::a("F"), Sx::op("or", vec![Sx::a("X"), conj.clone()])]));
    }
    // counting over 8..13 plain variables with large ids
    for k in [8usize, 11, 13] {
        let vs = Sx::l((0..k).map(|i| var(50 + 3 * i)).collect());
        for (op, n) in [("aln", k as i64 / 2), ("amn", 1), ("exn", k as i64 - 1), ("aln", k as i64 + 1), ("exn", 0)] {
            g.case(Sx::op(op, vec![vs.clone(), Sx::n(n)]));
        }
        let l = Sx::l((0..k / 2).map(|i| var(50 + 3 * i)).collect());
        let r = Sx::l((k / 2..k).map(|i| var(50 + 3 * i)).collect());
        for op in ["cleq", "clt", "cgeq", "cgt", "ceq"] {
            g.case(Sx::op(op, vec![l.clone(), r.clone()]));
        }
    }
}

pub fn main(out: &mut Out, o: &Opts) {
    for p in o.parts.clone() {
        match p.as_str() {
            "wide" => part_wide(out, o),
            "conn" => part_conn(out, o),
            "quant" => part_quant(out, o),
            "count" => part_count(out, o),
            "fp" => part_fp(out, o),
            "model" => part_unary(out, o, "model"),
            "retain" => part_unary(out, o, "retain"),
            "clean" => part_unary(out, o, "clean"),
            "mixed" => part_mixed(out, o),
            _ => panic!("unknown part {p}"),
        }
    }
}
