//! Suite S-hist (C13): one long-lived environment against a fresh one per operation, re-inspection
//! of every earlier handle after every step, pointer identity of every reachable node against the
//! unique table, and direct mk_choice / mk_const call sequences against the Heap model.
use crate::sbdd::{bdd_str, run_case_x, B, HANDLES};
use crate::sx::{Rng, Sx};
use crate::{Opts, Out};
use rsbdd::bdd::{BDDEnv, BDD};
use std::panic::{catch_unwind, AssertUnwindSafe};
use std::rc::Rc;

fn check_env(env: &BDDEnv<usize>, handles: &[B]) -> Option<&'static str> {
    check_env_gen(env, handles, &|v: &usize| *v)
}

pub fn check_env_gen<S: rsbdd::BDDSymbol>(env: &BDDEnv<S>, handles: &[Rc<BDD<S>>], id: &dyn Fn(&S) -> usize) -> Option<&'static str> {
    let nodes = env.nodes.borrow();
    if !nodes.contains_key(&BDD::True) || !nodes.contains_key(&BDD::False) {
        return Some("leaf-missing");
    }
    // one table entry per structure: (variable id, address of the true child, address of the false child) determines the node
    let mut by_shape: std::collections::HashMap<(usize, usize, usize), usize> = std::collections::HashMap::new();
    let mut leaves = (0usize, 0usize);
    for (k, v) in nodes.iter() {
        if k != v.as_ref() {
            return Some("key-differs-from-value");
        }
        match v.as_ref() {
            BDD::Choice(t, x, f) => {
                let key = (id(x), Rc::as_ptr(t) as usize, Rc::as_ptr(f) as usize);
                if let Some(p) = by_shape.insert(key, Rc::as_ptr(v) as usize) {
                    if p != Rc::as_ptr(v) as usize {
                        return Some("two-table-entries-for-one-structure");
                    }
                }
            }
            BDD::True => leaves.0 += 1,
            BDD::False => leaves.1 += 1,
        }
    }
    if leaves != (1, 1) {
        return Some("leaf-entered-twice");
    }
    // every node reachable from every handle is the table's node for its structure
    let mut stack: Vec<Rc<BDD<S>>> = handles.to_vec();
    let mut seen = std::collections::HashSet::new();
    while let Some(n) = stack.pop() {
        if !seen.insert(Rc::as_ptr(&n) as usize) {
            continue;
        }
        match nodes.get(n.as_ref()) {
            None => return Some("reachable-node-not-in-table"),
            Some(t) => {
                if !Rc::ptr_eq(t, &n) {
                    return Some("reachable-node-not-shared");
                }
            }
        }
        if let BDD::Choice(t, x, f) = n.as_ref() {
            // ... and it is THE entry for (id, children)
            let key = (id(x), Rc::as_ptr(t) as usize, Rc::as_ptr(f) as usize);
            if by_shape.get(&key) != Some(&(Rc::as_ptr(&n) as usize)) {
                return Some("reachable-node-not-the-entry-of-its-structure");
            }
            stack.push(t.clone());
            stack.push(f.clone());
        }
    }
    None
}

/// formula texts evaluated one after the other in ONE environment (ParsedFormula::new_with_env): every result equals the
/// evaluation in a fresh environment, earlier results keep their structure, structurally equal results are one pointer,
/// and the table invariants hold after every step
pub fn real_histf(texts: &[String]) -> String {
    use rsbdd::parser::ParsedFormula;
    use rsbdd::NamedSymbol;
    rsbdd::verif_hooks::FP_CAP.with(|c| c.set(crate::stext::EVAL_FP_CAP));
    let r = catch_unwind(AssertUnwindSafe(|| {
        let env: Rc<BDDEnv<NamedSymbol>> = Rc::new(BDDEnv::new());
        let mut hs: Vec<Rc<BDD<NamedSymbol>>> = vec![];
        let mut shown: Vec<String> = vec![];
        let mut out = String::from("(ok");
        for (i, t) in texts.iter().enumerate() {
            let p = match ParsedFormula::new_with_env(Rc::clone(&env), &mut std::io::BufReader::new(t.as_bytes()), None) {
                Ok(p) => p,
                Err(_) => return format!("(err {i})"),
            };
            let b = p.eval();
            let fresh = match ParsedFormula::new(&mut std::io::BufReader::new(t.as_bytes()), None) {
                Ok(q) => q.eval(),
                Err(_) => return format!("(err {i})"),
            };
            let mut sb = String::new();
            crate::stext::show_named(&b, &mut sb);
            let mut sf = String::new();
            crate::stext::show_named(&fresh, &mut sf);
            if sb != sf || *b != *fresh {
                return format!("(history-dependent {i} {sb} {sf})");
            }
            for (k, h) in hs.iter().enumerate() {
                let mut sh = String::new();
                crate::stext::show_named(h, &mut sh);
                if sh != shown[k] {
                    return format!("(old-handle-changed {i} {k})");
                }
                if shown[k] == sb && !Rc::ptr_eq(h, &b) {
                    return format!("(env-invariant {i} equal-results-not-shared)");
                }
            }
            hs.push(b);
            shown.push(sb.clone());
            if let Some(e) = check_env_gen(&env, &hs, &|v: &NamedSymbol| v.id) {
                return format!("(env-invariant {i} {e})");
            }
            out.push(' ');
            out.push_str(&sb);
        }
        out.push(')');
        out
    }));
    rsbdd::verif_hooks::FP_CAP.with(|c| c.set(usize::MAX));
    match r {
        Ok(s) => s,
        Err(p) => {
            if p.downcast_ref::<rsbdd::verif_hooks::FpDiverged>().is_some() {
                "(step-failed (diverge))".into()
            } else {
                "(panic)".into()
            }
        }
    }
}

/// replace (h k) by the literal text of handle k, so that the step can be re-run in a fresh environment
fn subst(x: &Sx, texts: &[String]) -> Sx {
    match x {
        Sx::L(v) if v.len() == 2 && v[0].atom() == Some("h") => {
            let k: usize = v[1].atom().and_then(|s| s.parse().ok()).unwrap_or(0);
            crate::sx::parse(texts.get(k).map(|s| s.as_str()).unwrap_or("F")).unwrap_or(Sx::a("F"))
        }
        Sx::L(v) => Sx::L(v.iter().map(|y| subst(y, texts)).collect()),
        a => a.clone(),
    }
}

pub fn real_hist(steps: &[Sx]) -> String {
    let env = BDDEnv::new();
    HANDLES.with(|h| h.borrow_mut().clear());
    let mut texts: Vec<String> = vec![];
    let mut out = String::from("(ok");
    for (i, st) in steps.iter().enumerate() {
        let r = run_case_x(&env, st, false);
        // the same step in a fresh environment, operands rebuilt from their structure
        let fresh = run_case_x(&BDDEnv::new(), &subst(st, &texts), false);
        if fresh != r {
            HANDLES.with(|h| h.borrow_mut().clear());
            return format!("(history-dependent {} {} {})", i, r, fresh);
        }
        let payload = match r.strip_prefix("(ok ").and_then(|s| s.strip_suffix(')')) {
            Some(p) => p.to_string(),
            None => {
                HANDLES.with(|h| h.borrow_mut().clear());
                return format!("(step-failed {} {})", i, r);
            }
        };
        // re-evaluate to obtain the handle itself (run_case_x returns text): evaluate again, same env
        let handle = catch_unwind(AssertUnwindSafe(|| {
            let it = crate::sbdd::Interp { env: &env, xenv: false };
            it.eval(st, &None)
        }));
        let handle = match handle {
            Ok(Ok(b)) => b,
            _ => {
                HANDLES.with(|h| h.borrow_mut().clear());
                return format!("(step-failed {} re-evaluation)", i);
            }
        };
        if bdd_str(&handle) != payload {
            HANDLES.with(|h| h.borrow_mut().clear());
            return format!("(history-dependent {} repeat)", i);
        }
        HANDLES.with(|h| h.borrow_mut().push(handle));
        texts.push(payload.clone());
        // every earlier handle still has its structure, and the table invariants hold
        let hs: Vec<B> = HANDLES.with(|h| h.borrow().clone());
        for (k, b) in hs.iter().enumerate() {
            if bdd_str(b) != texts[k] {
                HANDLES.with(|h| h.borrow_mut().clear());
                return format!("(old-handle-changed {} {})", i, k);
            }
        }
        if let Some(e) = check_env(&env, &hs) {
            HANDLES.with(|h| h.borrow_mut().clear());
            return format!("(env-invariant {} {})", i, e);
        }
        out.push(' ');
        out.push_str(&payload);
    }
    HANDLES.with(|h| h.borrow_mut().clear());
    out.push(')');
    out
}

/// direct table calls: (mk i v j) / (const b) with i, j indices of earlier results.
/// Result: for every call the index of the first earlier result that is the same pointer (or its own index), and the table size.
pub fn real_heap(calls: &[Sx]) -> String {
    let r = catch_unwind(AssertUnwindSafe(|| {
        let env: BDDEnv<usize> = BDDEnv::new();
        let mut hs: Vec<B> = vec![];
        let mut classes = vec![];
        let mut sizes = vec![];
        for c in calls {
            let l = c.list()?;
            let b = match l[0].atom()? {
                "mk" => {
                    let i: usize = l[1].atom()?.parse().ok()?;
                    let v: usize = l[2].atom()?.parse().ok()?;
                    let j: usize = l[3].atom()?.parse().ok()?;
                    env.mk_choice(hs.get(i)?.clone(), v, hs.get(j)?.clone())
                }
                _ => env.mk_const(l[1].atom()? == "1"),
            };
            let cls = hs.iter().position(|h| Rc::ptr_eq(h, &b)).unwrap_or(hs.len());
            classes.push(cls.to_string());
            hs.push(b);
            sizes.push(env.size().to_string());
        }
        if let Some(e) = check_env(&env, &hs) {
            return Some(format!("(env-invariant {e})"));
        }
        Some(format!("(ok ({}) ({}))", classes.join(" "), sizes.join(" ")))
    }));
    match r {
        Ok(Some(s)) => s,
        Ok(None) => "(harness-error call)".into(),
        Err(_) => "(panic)".into(),
    }
}

fn h(k: usize) -> Sx {
    Sx::op("h", vec![Sx::n(k)])
}

fn emit_hist(out: &mut Out, steps: &[Sx]) {
    out.emit("hist", &Sx::l(steps.to_vec()).show(), &real_hist(steps));
}

pub fn main(out: &mut Out, o: &Opts) {
    // exhaustive: all sequences of length <= 3 over a 12-operation alphabet acting on the two latest handles
    let alpha = |k: usize| -> Vec<Sx> {
        let last = h(k - 1);
        let prev = h(k - 2);
        vec![
            Sx::op("var", vec![Sx::n(0)]),
            Sx::op("var", vec![Sx::n(1)]),
            Sx::op("not", vec![last.clone()]),
            Sx::op("and", vec![last.clone(), prev.clone()]),
            Sx::op("or", vec![last.clone(), prev.clone()]),
            Sx::op("xor", vec![last.clone(), prev.clone()]),
            Sx::op("ex1", vec![Sx::n(0), last.clone()]),
            Sx::op("model", vec![last.clone()]),
            Sx::op("retain", vec![Sx::a("t"), last.clone()]),
            Sx::op("mk", vec![last.clone(), Sx::n(0), prev.clone()]),
            Sx::op("clean", vec![last.clone()]),
            Sx::op("aln", vec![Sx::l(vec![last.clone(), prev.clone(), Sx::op("var", vec![Sx::n(1)])]), Sx::n(2)]),
        ]
    };
    let start = vec![Sx::op("const", vec![Sx::n(0)]), Sx::op("var", vec![Sx::n(1)])];
    for a in 0..12 {
        let mut s1 = start.clone();
        s1.push(alpha(2)[a].clone());
        emit_hist(out, &s1);
        for b in 0..12 {
            let mut s2 = s1.clone();
            s2.push(alpha(3)[b].clone());
            emit_hist(out, &s2);
            for c in 0..12 {
                let mut s3 = s2.clone();
                s3.push(alpha(4)[c].clone());
                emit_hist(out, &s3);
            }
        }
    }
    // random long histories over all public operations
    let mut rng = Rng::new(o.seed ^ 0x15);
    let (nh, len) = if o.thorough { (2_000, 300) } else { (100, 100) };
    for _ in 0..nh {
        let mut steps: Vec<Sx> = vec![];
        for k in 0..len {
            let pick = |rng: &mut Rng| -> Sx {
                if k == 0 || rng.chance(1, 6) {
                    match rng.below(3) {
                        0 => Sx::op("var", vec![Sx::n(rng.below(8))]),
                        1 => Sx::op("const", vec![Sx::n(rng.below(2))]),
                        _ => Sx::op("tt", vec![Sx::l(vec![Sx::n(1), Sx::n(3), Sx::n(4)]), Sx::n(rng.below(256))]),
                    }
                } else if rng.chance(1, 3) {
                    // an old handle: re-inspection after many later operations
                    h(rng.below(k as u64) as usize)
                } else {
                    h(k - 1 - rng.below(k.min(4) as u64) as usize)
                }
            };
            let a = pick(&mut rng);
            let b = pick(&mut rng);
            let c = pick(&mut rng);
            let vs = Sx::l((0..rng.below(3)).map(|_| Sx::n(rng.below(8))).collect());
            let st = match rng.below(22) {
                0 => Sx::op("not", vec![a]),
                1 => Sx::op("and", vec![a, b]),
                2 => Sx::op("or", vec![a, b]),
                3 => Sx::op("imp", vec![a, b]),
                4 => Sx::op("eq", vec![a, b]),
                5 => Sx::op("xor", vec![a, b]),
                6 => Sx::op("nor", vec![a, b]),
                7 => Sx::op("nand", vec![a, b]),
                8 => Sx::op("ite", vec![a, b, c]),
                9 => Sx::op(*rng.pick(&["aln", "amn", "exn"]), vec![Sx::l(vec![a, b, c]), Sx::n(rng.range(-1, 4))]),
                10 => Sx::op(*rng.pick(&["cleq", "clt", "cgeq", "cgt", "ceq"]), vec![Sx::l(vec![a, b]), Sx::l(vec![c])]),
                11 => Sx::op("ex", vec![vs, a]),
                12 => Sx::op("all", vec![vs, a]),
                13 => Sx::op("model", vec![a]),
                14 => Sx::op("retain", vec![Sx::a(*rng.pick(&["t", "f", "a"])), a]),
                15 => Sx::op("clean", vec![a]),
                16 => Sx::op("mk", vec![a, Sx::n(0), b]),
                17 => Sx::op("fp", vec![Sx::a("F"), Sx::op("or", vec![Sx::a("X"), Sx::op("and", vec![a, b])])]),
                18 => Sx::op("fp", vec![Sx::a("T"), Sx::op("and", vec![Sx::a("X"), Sx::op("or", vec![a, b])])]),
                19 => Sx::op("var", vec![Sx::n(rng.below(8))]),
                _ => Sx::op("and", vec![a, Sx::op("not", vec![b])]),
            };
            steps.push(st);
        }
        emit_hist(out, &steps);
    }
    // formulas sharing one environment, the same structure under several spellings of the same ids
    let nf = if o.thorough { 10_000 } else { 600 };
    let pools: [[&str; 3]; 4] = [["p", "q", "x"], ["req", "ack", "busy"], ["x", "p", "q"], ["a", "b", "c"]];
    let fixed = ["(a & b) | (c & -d) | [a, c, e] = 2", "(p & q) | (r & -s) | [p, r, t] = 2", "a & b", "b & a", "x | y", "lfp z # a | (b & z)", "lfp w # p | (q & w)"];
    out.emit("histf", &Sx::l(fixed.iter().map(|t| crate::stext::text_sx(t)).collect()).show(), &real_histf(&fixed.iter().map(|t| t.to_string()).collect::<Vec<_>>()));
    for _ in 0..nf {
        let len = 2 + rng.below(5) as usize;
        let mut texts: Vec<String> = vec![];
        let mut seeds: Vec<(u64, u32)> = vec![];
        for _ in 0..len {
            let (s, d) = if !seeds.is_empty() && rng.chance(1, 2) { *rng.pick(&seeds) } else { (rng.next(), 1 + rng.below(3) as u32) };
            seeds.push((s, d));
            let pool = rng.pick(&pools);
            texts.push(crate::stext::rand_formula(&mut Rng::new(s), d, pool));
        }
        out.emit("histf", &Sx::l(texts.iter().map(|t| crate::stext::text_sx(t)).collect()).show(), &real_histf(&texts));
    }
    // direct table calls
    let nc = if o.thorough { 20_000 } else { 2_000 };
    for _ in 0..nc {
        let len = 2 + rng.below(14) as usize;
        let mut calls = vec![Sx::op("const", vec![Sx::n(0)]), Sx::op("const", vec![Sx::n(1)])];
        for k in 2..len + 2 {
            if rng.chance(1, 8) {
                calls.push(Sx::op("const", vec![Sx::n(rng.below(2))]));
            } else {
                calls.push(Sx::op("mk", vec![Sx::n(rng.below(k as u64)), Sx::n(rng.below(3)), Sx::n(rng.below(k as u64))]));
            }
        }
        out.emit("heap", &Sx::l(calls.clone()).show(), &real_heap(&calls));
    }
}

pub fn replay(op: &str, args: &Sx) -> String {
    match (op, args.list()) {
        ("hist", Some(l)) => real_hist(l),
        ("heap", Some(l)) => real_heap(l),
        ("histf", Some(l)) => match l.iter().map(crate::stext::sx_text).collect::<Option<Vec<String>>>() {
            Some(ts) => real_histf(&ts),
            None => "(harness-error decode)".into(),
        },
        _ => "(harness-error args)".into(),
    }
}
