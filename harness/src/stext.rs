//! Suites S-tok, S-parse, S-eval: the tokenizer, the parser and the evaluator of src/parser.rs
//! against `tokenize`, `parse`, `parsed_formula` + `eval_f` of the Coq model.
use crate::sx::{Rng, Sx};
use crate::{Opts, Out};
use regex::Regex;
use rsbdd::bdd::{BDDEnv, BDD};
use rsbdd::parser::*;
use rsbdd::NamedSymbol;
use std::io::BufReader;
use std::panic::{catch_unwind, AssertUnwindSafe};
use std::rc::Rc;

pub const EVAL_FP_CAP: usize = 500;

thread_local! {
    static WORD: Regex = Regex::new(r"^\w$").unwrap();
    static DIGIT: Regex = Regex::new(r"^\d$").unwrap();
}

/// text as the list of its code points; non-ASCII ones carry the class the regex crate gives them
pub fn text_sx(s: &str) -> Sx {
    let mut v = vec![];
    let mut buf = [0u8; 4];
    for c in s.chars() {
        let cp = c as u32;
        if cp < 128 {
            v.push(Sx::n(cp));
        } else {
            let cs: &str = c.encode_utf8(&mut buf);
            let d = DIGIT.with(|r| r.is_match(cs));
            let w = WORD.with(|r| r.is_match(cs));
            let tag = if d { 'd' } else if w { 'w' } else { 'o' };
            v.push(Sx::a(format!("{cp}:{tag}")));
        }
    }
    Sx::l(v)
}

pub fn sx_text(x: &Sx) -> Option<String> {
    let mut s = String::new();
    for a in x.list()? {
        let t = a.atom()?;
        let num = t.split(':').next()?;
        s.push(char::from_u32(num.parse().ok()?)?);
    }
    Some(s)
}

fn name_sx(s: &str) -> Sx {
    Sx::l(s.chars().map(|c| Sx::n(c as u32)).collect())
}

pub fn ordering_sx(o: &[(String, usize)]) -> Sx {
    Sx::l(o.iter().map(|(n, i)| Sx::l(vec![name_sx(n), Sx::n(i)])).collect())
}
pub fn sx_ordering(x: &Sx) -> Option<Vec<(String, usize)>> {
    let mut v = vec![];
    for e in x.list()? {
        let p = e.list()?;
        let mut s = String::new();
        for a in p[0].list()? {
            s.push(char::from_u32(a.atom()?.parse().ok()?)?);
        }
        v.push((s, p[1].atom()?.parse().ok()?));
    }
    Some(v)
}
fn to_symbols(o: &[(String, usize)]) -> Option<Vec<NamedSymbol>> {
    Some(o.iter().map(|(n, i)| NamedSymbol { name: Rc::new(n.clone()), id: *i }).collect())
}

fn show_token(t: &SymbolicBDDToken) -> String {
    use SymbolicBDDToken::*;
    match t {
        Var(v) => format!("(V {})", v.id),
        Countable(n) => format!("(Num {n})"),
        Reference(_) => "Ref".into(),
        other => format!("{other:?}"),
    }
}

fn show_binop(op: &BinaryOperator) -> &'static str {
    match op {
        BinaryOperator::And => "and",
        BinaryOperator::Or => "or",
        BinaryOperator::Xor => "xor",
        BinaryOperator::Nor => "nor",
        BinaryOperator::Nand => "nand",
        BinaryOperator::Implies => "imp",
        BinaryOperator::ImpliesInv => "impinv",
        BinaryOperator::Iff => "iff",
    }
}
fn show_cop(op: &CountableOperator) -> &'static str {
    match op {
        CountableOperator::AtMost => "le",
        CountableOperator::LessThan => "lt",
        CountableOperator::AtLeast => "ge",
        CountableOperator::MoreThan => "gt",
        CountableOperator::Exactly => "eq",
    }
}

pub fn show_named(b: &BDD<NamedSymbol>, out: &mut String) {
    match b {
        BDD::False => out.push('F'),
        BDD::True => out.push('T'),
        BDD::Choice(t, v, f) => {
            out.push_str("(N ");
            show_named(t, out);
            out.push(' ');
            out.push_str(&v.id.to_string());
            out.push(' ');
            show_named(f, out);
            out.push(')');
        }
    }
}

pub fn show_form(f: &SymbolicBDD, out: &mut String) {
    let lst = |l: &Vec<SymbolicBDD>, out: &mut String| {
        out.push('(');
        for (i, g) in l.iter().enumerate() {
            if i > 0 {
                out.push(' ');
            }
            show_form(g, out);
        }
        out.push(')');
    };
    match f {
        SymbolicBDD::False => out.push('F'),
        SymbolicBDD::True => out.push('T'),
        SymbolicBDD::Var(v) => out.push_str(&format!("(V {})", v.id)),
        SymbolicBDD::Not(g) => {
            out.push_str("(Not ");
            show_form(g, out);
            out.push(')');
        }
        SymbolicBDD::Quantifier(q, vs, g) => {
            out.push_str(match q {
                QuantifierType::Exists => "(Q ex (",
                QuantifierType::Forall => "(Q all (",
            });
            out.push_str(&vs.iter().map(|v| v.id.to_string()).collect::<Vec<_>>().join(" "));
            out.push_str(") ");
            show_form(g, out);
            out.push(')');
        }
        SymbolicBDD::CountableConst(op, fs, n) => {
            out.push_str(&format!("(CC {} ", show_cop(op)));
            lst(fs, out);
            out.push_str(&format!(" {n})"));
        }
        SymbolicBDD::CountableVariable(op, l, r) => {
            out.push_str(&format!("(CV {} ", show_cop(op)));
            lst(l, out);
            out.push(' ');
            lst(r, out);
            out.push(')');
        }
        SymbolicBDD::FixedPoint(v, init, g) => {
            out.push_str(&format!("(Fix {} {} ", v.id, *init as u8));
            show_form(g, out);
            out.push(')');
        }
        SymbolicBDD::Ite(c, t, e) => {
            out.push_str("(Ite ");
            show_form(c, out);
            out.push(' ');
            show_form(t, out);
            out.push(' ');
            show_form(e, out);
            out.push(')');
        }
        SymbolicBDD::BinaryOp(op, l, r) => {
            out.push_str(&format!("(Bin {} ", show_binop(op)));
            show_form(l, out);
            out.push(' ');
            show_form(r, out);
            out.push(')');
        }
        SymbolicBDD::Subtree(b) => {
            out.push_str("(Sub ");
            show_named(b, out);
            out.push(')');
        }
        SymbolicBDD::Reference(_) => out.push_str("(Ref)"),
    }
}

fn ids(v: &[NamedSymbol]) -> String {
    format!("({})", v.iter().map(|x| x.id.to_string()).collect::<Vec<_>>().join(" "))
}

fn guard<F: FnOnce() -> String>(f: F) -> String {
    rsbdd::verif_hooks::FP_CAP.with(|c| c.set(EVAL_FP_CAP));
    let r = catch_unwind(AssertUnwindSafe(f));
    rsbdd::verif_hooks::FP_CAP.with(|c| c.set(usize::MAX));
    match r {
        Ok(s) => s,
        Err(p) => {
            if p.downcast_ref::<rsbdd::verif_hooks::FpDiverged>().is_some() {
                "(diverge)".into()
            } else {
                "(panic)".into()
            }
        }
    }
}

pub fn real_tok(bytes: &[u8], ord: &[(String, usize)]) -> String {
    guard(|| {
        let mut rd = BufReader::new(bytes);
        let o = if ord.is_empty() { None } else { to_symbols(ord) };
        match SymbolicBDD::tokenize(&mut rd, o) {
            Err(_) => "(err)".into(),
            Ok(ts) => {
                let toks: Vec<String> = ts.iter().map(show_token).collect();
                let names: Vec<String> = ts
                    .iter()
                    .filter_map(|t| match t {
                        SymbolicBDDToken::Var(v) => Some(name_sx(&v.name).show()),
                        _ => None,
                    })
                    .collect();
                format!("(ok ({}) ({}))", toks.join(" "), names.join(" "))
            }
        }
    })
}

pub fn real_parse(bytes: &[u8]) -> String {
    guard(|| {
        let mut rd = BufReader::new(bytes);
        match ParsedFormula::new(&mut rd, None) {
            Err(_) => "(err)".into(),
            Ok(p) => {
                let mut s = String::from("(ok ");
                show_form(&p.bdd, &mut s);
                s.push(')');
                s
            }
        }
    })
}

pub fn real_eval(bytes: &[u8], ord: &[(String, usize)]) -> String {
    guard(|| {
        let mut rd = BufReader::new(bytes);
        let o = if ord.is_empty() { None } else { to_symbols(ord) };
        match ParsedFormula::new(&mut rd, o) {
            Err(_) => "(err)".into(),
            Ok(p) => {
                let b = p.eval();
                let mut s = String::from("(ok ");
                show_named(&b, &mut s);
                s.push(' ');
                s.push_str(&ids(&p.vars));
                s.push(' ');
                s.push_str(&ids(&p.free_vars));
                s.push_str(" (");
                s.push_str(&p.vars.iter().map(|v| name_sx(&v.name).show()).collect::<Vec<_>>().join(" "));
                s.push_str("))");
                s
            }
        }
    })
}

pub fn replay(op: &str, args: &Sx) -> String {
    let a = match args.list() {
        Some(a) => a,
        None => return "(harness-error args)".into(),
    };
    match (op, a.len()) {
        ("tok", 2) => match (sx_ordering(&a[0]), sx_text(&a[1])) {
            (Some(o), Some(t)) => real_tok(t.as_bytes(), &o),
            _ => "(harness-error decode)".into(),
        },
        ("parse", 1) => match sx_text(&a[0]) {
            Some(t) => real_parse(t.as_bytes()),
            _ => "(harness-error decode)".into(),
        },
        ("tte", 1) => {
            let nm: Option<String> = a[0].list().and_then(|l| l.iter().map(|c| char::from_u32(c.atom()?.parse().ok()?)).collect());
            match nm {
                Some(sp) => real_tte(&sp),
                None => "(harness-error decode)".into(),
            }
        }
        ("sym", 4) => {
            let nm = |x: &Sx| -> Option<String> { x.list()?.iter().map(|c| char::from_u32(c.atom()?.parse().ok()?)).collect() };
            match (a[0].atom().and_then(|s| s.parse().ok()), nm(&a[1]), a[2].atom().and_then(|s| s.parse().ok()), nm(&a[3])) {
                (Some(i1), Some(n1), Some(i2), Some(n2)) => real_sym(i1, &n1, i2, &n2),
                _ => "(harness-error decode)".into(),
            }
        }
        ("evalx", 2) => match (sx_text(&a[0]), sx_text(&a[1])) {
            (Some(t1), Some(t2)) => real_evalx(t1.as_bytes(), t2.as_bytes()),
            _ => "(harness-error decode)".into(),
        },
        ("evalid", 3) => match (sx_ordering_id(&a[0]), sx_text(&a[1]), a[2].atom()) {
            (Some(o), Some(t), Some(m)) => real_evalid(t.as_bytes(), &o, m),
            _ => "(harness-error decode)".into(),
        },
        ("eval", 2) => match (sx_ordering(&a[0]), sx_text(&a[1])) {
            (Some(o), Some(t)) => real_eval(t.as_bytes(), &o),
            _ => "(harness-error decode)".into(),
        },
        _ => "(harness-unknown-op)".into(),
    }
}

fn emit_tok(out: &mut Out, text: &str, ord: &[(String, usize)]) {
    let args = Sx::l(vec![ordering_sx(ord), text_sx(text)]);
    let r = real_tok(text.as_bytes(), ord);
    out.emit("tok", &args.show(), &r);
}
fn emit_parse(out: &mut Out, text: &str) {
    let args = Sx::l(vec![text_sx(text)]);
    let r = real_parse(text.as_bytes());
    out.emit("parse", &args.show(), &r);
}
fn emit_eval(out: &mut Out, text: &str, ord: &[(String, usize)]) {
    let args = Sx::l(vec![ordering_sx(ord), text_sx(text)]);
    let r = real_eval(text.as_bytes(), ord);
    out.emit("eval", &args.show(), &r);
}

// ------------------------------------------------------------------------------------------------
// S-tok

/// one character per alternation / boundary of the tokenizer regex
const TOK_ALPHABET: [char; 23] = [
    'a', '1', '\'', '_', ' ', '"', '{', '}', '<', '=', '>', '-', '!', '&', '|', '(', '[', ',', '#', 'é', '٣', '\0', '\\',
];

pub const SPELLINGS: [&str; 48] = [
    "!", "&", "=>", "-", "<=>", "<=", "|", "^", "#", "*", "+", ">=", "=", ">", "<", "[", "]", ",", "(", ")", "false", "true",
    "not", "and", "or", "xor", "nor", "nand", "implies", "in", "iff", "eq", "exists", "any", "forall", "all", "if", "then",
    "else", "gfp", "nu", "lfp", "mu", "x", "x1", "{r}", "12", "\"c\"",
];

fn strings_upto(out: &mut Out, maxlen: usize) {
    emit_tok(out, "", &[]);
    for len in 1..=maxlen {
        let mut idx = vec![0usize; len];
        loop {
            let s: String = idx.iter().map(|&i| TOK_ALPHABET[i]).collect();
            emit_tok(out, &s, &[]);
            let mut k = len;
            let mut done = true;
            while k > 0 {
                k -= 1;
                idx[k] += 1;
                if idx[k] < TOK_ALPHABET.len() {
                    done = false;
                    break;
                }
                idx[k] = 0;
            }
            if done {
                break;
            }
        }
    }
}

const SOUP: [&str; 30] = [
    "a", "b", "x'", "_y", "v_1", "12", "0", "007", "18446744073709551615", "18446744073709551616", "٣", "é", "ß1", "{r}", "{", "}",
    "\"", "\"c d\"", "<", "=", ">", "-", "&", "(", ")", "[", "]", ",", "#", "true",
];

pub fn part_tok(out: &mut Out, o: &Opts) {
    strings_upto(out, if o.thorough { 5 } else { 4 });
    for a in SPELLINGS {
        emit_tok(out, a, &[]);
        for b in SPELLINGS {
            emit_tok(out, &format!("{a}{b}"), &[]);
            emit_tok(out, &format!("{a} {b}"), &[]);
        }
    }
    let mut rng = Rng::new(o.seed ^ 0x70);
    let n = if o.thorough { 300_000 } else { 6_000 };
    for k in 0..n {
        let mut s = String::new();
        let len = rng.below(12) + 1;
        match k % 4 {
            0 => {
                for _ in 0..len {
                    s.push_str(*rng.pick(&SOUP));
                    if rng.chance(1, 3) {
                        s.push(' ');
                    }
                }
            }
            1 => {
                for _ in 0..len {
                    s.push_str(*rng.pick(&SPELLINGS));
                    s.push_str(*rng.pick(&["", " ", "\n", "\t", "  "]));
                }
            }
            2 => {
                // random code points: ASCII, Latin-1, digits of other scripts, astral
                for _ in 0..len {
                    let c = match rng.below(6) {
                        0 => rng.below(128) as u32,
                        1 => 0x80 + rng.below(0x180) as u32,
                        2 => 0x660 + rng.below(10) as u32,
                        3 => 0x4e00 + rng.below(100) as u32,
                        4 => 0x1d7ce + rng.below(20) as u32,
                        _ => *rng.pick(&[0x20u32, 0x22, 0x27, 0x5f, 0x7b, 0x7d, 0x3c, 0x3d, 0x3e]),
                    };
                    if let Some(ch) = char::from_u32(c) {
                        s.push(ch);
                    }
                }
            }
            _ => {
                s = rand_formula(&mut rng, 3, &NAMES6);
                mutate_chars(&mut rng, &mut s);
            }
        }
        // random ordering: some names of the pool with distinct sparse ids
        let ord = if rng.chance(1, 3) { rand_ordering(&mut rng) } else { vec![] };
        emit_tok(out, &s, &ord);
    }
}

fn rand_ordering(rng: &mut Rng) -> Vec<(String, usize)> {
    let pool = ["a", "b", "c", "x'", "_y", "v_1", "zz", "é"];
    let mut ids: Vec<usize> = (0..12).collect();
    let mut v = vec![];
    let k = rng.below(5) as usize + 1;
    for i in 0..k {
        let j = i + rng.below((ids.len() - i) as u64) as usize;
        ids.swap(i, j);
        let name = pool[rng.below(pool.len() as u64) as usize];
        if v.iter().any(|(n, _): &(String, usize)| n == name) {
            continue;
        }
        v.push((name.to_string(), ids[i]));
    }
    v
}

fn mutate_chars(rng: &mut Rng, s: &mut String) {
    let mut cs: Vec<char> = s.chars().collect();
    for _ in 0..rng.below(3) {
        if cs.is_empty() {
            break;
        }
        let i = rng.below(cs.len() as u64) as usize;
        match rng.below(3) {
            0 => {
                cs.remove(i);
            }
            1 => cs.insert(i, *rng.pick(&TOK_ALPHABET)),
            _ => cs[i] = *rng.pick(&TOK_ALPHABET),
        }
    }
    *s = cs.into_iter().collect();
}

// ------------------------------------------------------------------------------------------------
// S-parse / S-eval

const PARSE_ALPHABET: [&str; 36] = [
    "a", "b", "(", ")", "[", "]", ",", "#", "true", "false", "{r}", "not", "&", "|", "^", "nor", "nand", "=>", "<=", "<=>",
    "=", ">=", ">", "<", "0", "1", "2", "exists", "forall", "lfp", "gfp", "if", "then", "else", "-", "a'",
];
const PARSE_REDUCED: [&str; 20] =
    ["a", "b", "(", ")", "[", "]", ",", "#", "true", "-", "&", "=>", "<=", "=", "1", "exists", "lfp", "if", "then", "else"];

fn seqs<F: FnMut(&str)>(alpha: &[&str], len: usize, f: &mut F) {
    let mut idx = vec![0usize; len];
    loop {
        let s: Vec<&str> = idx.iter().map(|&i| alpha[i]).collect();
        f(&s.join(" "));
        let mut k = len;
        let mut done = true;
        while k > 0 {
            k -= 1;
            idx[k] += 1;
            if idx[k] < alpha.len() {
                done = false;
                break;
            }
            idx[k] = 0;
        }
        if done {
            break;
        }
    }
}

pub const NAMES6: [&str; 6] = ["a", "b", "c", "x", "y'", "_z"];
pub const NAMES3: [&str; 3] = ["p", "q", "x"];

struct Mono {
    pos: Vec<String>, // fixed-point names that may occur here positively
    neg: Vec<String>, // … only negatively (so not at all right here)
    none: Vec<String>, // … not at all below this point
}

fn sp(rng: &mut Rng) -> &'static str {
    match rng.below(12) {
        0 => "  ",
        1 => "\n",
        2 => " \"note\" ",
        3 => "\t",
        _ => " ",
    }
}

/// grammar-directed random text; `mono` restricts where fixed-point names may occur so that every
/// fixed point in the result is monotone by construction (None = no restriction)
fn gen_sub(rng: &mut Rng, depth: u32, names: &[&str], mono: &mut Option<Mono>, out: &mut String) {
    if depth > 0 && rng.chance(2, 5) {
        let ops: [(&[&str], u8); 8] = [
            (&["&", "*", "and"], 0),
            (&["|", "+", "or"], 0),
            (&["^", "xor"], 3),
            (&["nor"], 2),
            (&["nand"], 2),
            (&["=>", "implies", "in"], 1),
            (&["<="], 4),
            (&["<=>", "iff", "eq"], 3),
        ];
        let (sp_, kind) = ops[rng.below(8) as usize];
        // kind: 0 both keep, 1 left flips, 2 both flip, 3 no X at all, 4 right flips
        let mut left = String::new();
        with_pol(mono, if kind == 1 || kind == 2 { 1 } else if kind == 3 { 2 } else { 0 }, |m| gen_simple(rng, depth - 1, names, m, &mut left));
        // a quantifier / fixed point / if-then-else extends as far right as possible: as a left operand it
        // needs parentheses, or the right operand would be parsed into its body (and the polarity bookkeeping
        // of the monotone-by-construction mode would be about another formula)
        let core = left.trim_start_matches(|c| c == '-' || c == '!').trim_start_matches("not ");
        let open = ["exists", "any", "forall", "all", "lfp", "mu", "gfp", "nu", "if"].iter().any(|k| core.starts_with(&format!("{k} ")));
        if open && (mono.is_some() || rng.chance(1, 2)) {
            out.push('(');
            out.push_str(&left);
            out.push(')');
        } else {
            out.push_str(&left);
        }
        out.push_str(sp(rng));
        out.push_str(*rng.pick(sp_));
        out.push_str(sp(rng));
        with_pol(mono, if kind == 4 || kind == 2 { 1 } else if kind == 3 { 2 } else { 0 }, |m| gen_sub(rng, depth - 1, names, m, out));
    } else {
        gen_simple(rng, depth, names, mono, out);
    }
}

/// pol: 0 keep, 1 flip, 2 forbid
fn with_pol<F: FnOnce(&mut Option<Mono>)>(mono: &mut Option<Mono>, pol: u8, f: F) {
    match mono {
        None => f(mono),
        Some(m) => {
            let saved = (m.pos.clone(), m.neg.clone(), m.none.clone());
            match pol {
                1 => std::mem::swap(&mut m.pos, &mut m.neg),
                2 => {
                    let mut all = m.pos.clone();
                    all.extend(m.neg.clone());
                    m.none.extend(all);
                    m.pos.clear();
                    m.neg.clear();
                }
                _ => {}
            }
            f(mono);
            if let Some(m) = mono {
                m.pos = saved.0;
                m.neg = saved.1;
                m.none = saved.2;
            }
        }
    }
}

fn pick_var(rng: &mut Rng, names: &[&str], mono: &Option<Mono>) -> String {
    for _ in 0..20 {
        let n = *rng.pick(names);
        match mono {
            Some(m) if m.neg.iter().any(|x| x == n) || m.none.iter().any(|x| x == n) => continue,
            _ => return n.to_string(),
        }
    }
    "true".to_string()
}

fn gen_list(rng: &mut Rng, depth: u32, names: &[&str], mono: &mut Option<Mono>, out: &mut String) {
    out.push('[');
    let k = rng.below(4);
    for i in 0..k {
        if i > 0 {
            out.push(',');
            out.push_str(sp(rng));
        }
        gen_sub(rng, depth, names, mono, out);
    }
    if k > 0 && rng.chance(1, 4) {
        out.push(',');
    }
    out.push(']');
}

fn gen_simple(rng: &mut Rng, depth: u32, names: &[&str], mono: &mut Option<Mono>, out: &mut String) {
    if depth == 0 {
        match rng.below(8) {
            0 => out.push_str("true"),
            1 => out.push_str("false"),
            _ => out.push_str(&pick_var(rng, names, mono)),
        }
        return;
    }
    match rng.below(14) {
        0 | 1 => out.push_str(&pick_var(rng, names, mono)),
        2 => {
            out.push('(');
            gen_sub(rng, depth - 1, names, mono, out);
            out.push(')');
        }
        3 | 4 => {
            out.push_str(*rng.pick(&["-", "!", "not "]));
            with_pol(mono, 1, |m| gen_simple(rng, depth - 1, names, m, out));
        }
        5 | 6 => {
            out.push_str(*rng.pick(&["exists", "any", "forall", "all"]));
            out.push(' ');
            // up to four names, so that lists with several names the body does not mention arise (a bound name that is
            // skipped on the way down must not survive in the answer)
            let k = rng.below(5);
            let mut bound = vec![];
            for i in 0..k {
                if i > 0 {
                    out.push_str(", ");
                }
                let n = *rng.pick(names);
                bound.push(n.to_string());
                out.push_str(n);
            }
            if k > 0 && rng.chance(1, 5) {
                out.push(',');
            }
            out.push_str(" # ");
            // a quantifier on a fixed-point name shadows it: below, the name is an ordinary variable
            let saved = mono.as_ref().map(|m| (m.pos.clone(), m.neg.clone(), m.none.clone()));
            if let Some(m) = mono {
                m.pos.retain(|x| !bound.contains(x));
                m.neg.retain(|x| !bound.contains(x));
                m.none.retain(|x| !bound.contains(x));
            }
            gen_sub(rng, depth - 1, names, mono, out);
            if let (Some(m), Some(s)) = (mono.as_mut(), saved) {
                m.pos = s.0;
                m.neg = s.1;
                m.none = s.2;
            }
        }
        7 | 8 => {
            let n = *rng.pick(names);
            out.push_str(*rng.pick(&["lfp", "mu", "gfp", "nu"]));
            out.push(' ');
            out.push_str(n);
            out.push_str(" # ");
            let saved = mono.as_ref().map(|m| (m.pos.clone(), m.neg.clone(), m.none.clone()));
            if let Some(m) = mono {
                m.neg.retain(|x| x != n);
                m.none.retain(|x| x != n);
                if !m.pos.iter().any(|x| x == n) {
                    m.pos.push(n.to_string());
                }
            }
            gen_sub(rng, depth - 1, names, mono, out);
            if let (Some(m), Some(s)) = (mono.as_mut(), saved) {
                m.pos = s.0;
                m.neg = s.1;
                m.none = s.2;
            }
        }
        9 => {
            out.push_str("if ");
            with_pol(mono, 2, |m| gen_sub(rng, depth - 1, names, m, out));
            out.push_str(" then ");
            gen_sub(rng, depth - 1, names, mono, out);
            out.push_str(" else ");
            gen_sub(rng, depth - 1, names, mono, out);
        }
        10 | 11 => {
            // counting against a constant: >= and > are monotone in the operands, <= and < antitone, = neither
            let (op, pol) = *rng.pick(&[(">=", 0u8), (">", 0), ("<=", 1), ("<", 1), ("=", 2)]);
            with_pol(mono, pol, |m| gen_list(rng, depth - 1, names, m, out));
            out.push_str(sp(rng));
            out.push_str(op);
            out.push_str(sp(rng));
            let c = match rng.below(12) {
                0 => "9223372036854775807".to_string(),
                1 => "9223372036854775808".to_string(),
                2 => "18446744073709551615".to_string(),
                _ => rng.below(5).to_string(),
            };
            out.push_str(&c);
        }
        12 => {
            let (op, pl, pr) = *rng.pick(&[(">=", 0u8, 1u8), (">", 0, 1), ("<=", 1, 0), ("<", 1, 0), ("=", 2, 2)]);
            with_pol(mono, pl, |m| gen_list(rng, depth - 1, names, m, out));
            out.push_str(sp(rng));
            out.push_str(op);
            out.push_str(sp(rng));
            with_pol(mono, pr, |m| gen_list(rng, depth - 1, names, m, out));
        }
        _ => match rng.below(6) {
            0 => out.push_str("{ref}"),
            1 => out.push_str("true"),
            2 => out.push_str("false"),
            _ => out.push_str(&pick_var(rng, names, mono)),
        },
    }
}

pub fn rand_formula(rng: &mut Rng, depth: u32, names: &[&str]) -> String {
    let mut s = String::new();
    let mut mono = Some(Mono { pos: vec![], neg: vec![], none: vec![] });
    gen_sub(rng, depth, names, &mut mono, &mut s);
    s
}
pub fn rand_formula_free(rng: &mut Rng, depth: u32, names: &[&str]) -> String {
    let mut s = String::new();
    let mut mono = None;
    gen_sub(rng, depth, names, &mut mono, &mut s);
    s
}

fn mutate_tokens(rng: &mut Rng, s: &str) -> String {
    let mut toks: Vec<String> = s.split_whitespace().map(|x| x.to_string()).collect();
    for _ in 0..rng.below(3) + 1 {
        if toks.is_empty() {
            break;
        }
        let i = rng.below(toks.len() as u64) as usize;
        match rng.below(4) {
            0 => {
                toks.remove(i);
            }
            1 => toks.insert(i, rng.pick(&PARSE_ALPHABET).to_string()),
            2 => {
                let j = rng.below(toks.len() as u64) as usize;
                toks.swap(i, j);
            }
            _ => toks[i] = rng.pick(&PARSE_ALPHABET).to_string(),
        }
    }
    toks.join(" ")
}

pub fn part_parse(out: &mut Out, o: &Opts) {
    emit_parse(out, "");
    for len in 1..=3 {
        seqs(&PARSE_ALPHABET, len, &mut |s| emit_parse(out, s));
    }
    if o.thorough {
        seqs(&PARSE_ALPHABET, 4, &mut |s| emit_parse(out, s));
        seqs(&PARSE_REDUCED, 5, &mut |s| emit_parse(out, s));
    } else {
        seqs(&PARSE_REDUCED, 4, &mut |s| emit_parse(out, s));
    }
    let mut rng = Rng::new(o.seed ^ 0x71);
    let n = if o.thorough { 300_000 } else { 6_000 };
    for k in 0..n {
        let depth = 1 + rng.below(4) as u32;
        let f = rand_formula_free(&mut rng, depth, &NAMES6);
        if k % 2 == 0 {
            emit_parse(out, &f);
        } else {
            let m = mutate_tokens(&mut rng, &f);
            emit_parse(out, &m);
        }
    }
}

pub fn part_eval(out: &mut Out, o: &Opts) {
    emit_eval(out, "", &[]);
    for len in 1..=3 {
        seqs(&PARSE_ALPHABET, len, &mut |s| emit_eval(out, s, &[]));
    }
    if o.thorough {
        seqs(&PARSE_REDUCED, 5, &mut |s| emit_eval(out, s, &[]));
    } else {
        seqs(&PARSE_REDUCED, 4, &mut |s| emit_eval(out, s, &[]));
    }
    count_grid(out);
    let mut rng = Rng::new(o.seed ^ 0x72);
    let n = if o.thorough { 150_000 } else { 5_000 };
    for k in 0..n {
        let depth = 1 + rng.below(4) as u32;
        // formulas with fixed points stay over three names so that every iteration sequence is short
        let f = match k % 5 {
            0 => rand_formula(&mut rng, depth, &NAMES6),
            1 | 2 => rand_formula(&mut rng, depth, &NAMES3),
            3 => rand_formula_free(&mut rng, depth.min(3), &NAMES3),
            _ => {
                let f = rand_formula(&mut rng, depth, &NAMES3);
                mutate_tokens(&mut rng, &f)
            }
        };
        let ord = if rng.chance(1, 3) {
            let pool = ["a", "b", "c", "x", "y'", "_z", "p", "q", "unused"];
            let mut ids: Vec<usize> = (0..14).collect();
            let mut v: Vec<(String, usize)> = vec![];
            let kk = rng.below(5) as usize + 1;
            for i in 0..kk {
                let j = i + rng.below((ids.len() - i) as u64) as usize;
                ids.swap(i, j);
                let name = pool[rng.below(pool.len() as u64) as usize];
                if v.iter().any(|(n, _)| n == name) {
                    continue;
                }
                v.push((name.to_string(), ids[i]));
            }
            v
        } else {
            vec![]
        };
        emit_eval(out, &f, &ord);
    }
}

fn count_grid(out: &mut Out) {
    // counting constants at the conversion boundaries, every comparison
    for op in ["<=", "<", ">=", ">", "="] {
        for c in ["0", "1", "2", "3", "4", "9223372036854775806", "9223372036854775807", "9223372036854775808", "18446744073709551614", "18446744073709551615"] {
            for l in ["[]", "[a]", "[a, b]", "[a, b, a | b]", "[true, a]", "[a, a, -a]"] {
                emit_eval(out, &format!("{l} {op} {c}"), &[]);
            }
        }
        for l in ["[]", "[a]", "[a, b]", "[b, b]", "[a & b, a | b, c]"] {
            for r in ["[]", "[a]", "[c]", "[a, c]", "[true, false]"] {
                emit_eval(out, &format!("{l} {op} {r}"), &[]);
            }
        }
    }
}

/// language-level counting (C05): the boundary grid plus random formulas that contain a counting comparison
pub fn part_evalc(out: &mut Out, o: &Opts) {
    count_grid(out);
    let mut rng = Rng::new(o.seed ^ 0x75);
    let n = if o.thorough { 60_000 } else { 3_000 };
    let mut made = 0;
    while made < n {
        let depth = 1 + rng.below(3) as u32;
        let f = rand_formula(&mut rng, depth, &NAMES6);
        if f.contains('[') && !f.contains("fp") && !f.contains("mu") && !f.contains("nu") {
            emit_eval(out, &f, &[]);
            made += 1;
        }
    }
}

/// language-level fixed points (C06): random formulas that contain lfp/gfp, monotone by construction (3 of 4) or arbitrary
pub fn part_evalfp(out: &mut Out, o: &Opts) {
    for f in [
        "lfp x # x", "gfp x # x", "lfp x # true", "gfp x # false", "lfp x # -x", "gfp x # -x", "mu x # p | x", "nu x # p & x",
        "lfp x # p | exists p # x", "gfp x # p & forall q # x", "lfp x # p | (q & x)", "gfp x # (p | x) & q",
        "lfp x # gfp y # (x | p) & y", "gfp x # lfp y # (x & p) | y", "lfp x # p | exists x # x", "lfp x # lfp x # x | p",
        "lfp x # [x, p, q] >= 2", "gfp x # [x, p] >= 1", "lfp x # if p then x else q", "lfp x # -(-(x | p))",
        "(lfp x # x | p) & x", "exists x # lfp x # x | p", "lfp x # p | forall p # x | p",
    ] {
        emit_eval(out, f, &[]);
    }
    // the bound name in every position of every construct (each body monotone in x): both lists of list-against-list
    // comparisons, every operand position, quantifier bodies, both if-branches, under double negation, inside an inner fixed point
    for f in [
        "lfp x # [p, q] <= [r, x]", "gfp x # [p, q] <= [r, x]", "lfp x # [p] < [x, q, r]", "lfp x # [x, p] >= [q, r]", "gfp x # [x, p, q] > [r]",
        "lfp x # [p, q] <= [x, x]", "lfp x # [x & p, q] >= [r]", "gfp x # [p] <= [q & x]", "lfp x # [p, q] < [r | x, r]", "lfp x # [p] <= [r, exists r # x]",
        "lfp x # [p, x, q] >= 2", "lfp x # [p, q, x] > 1", "gfp x # [-x, p] <= 1", "gfp x # [p, -x, q] < 2", "lfp x # [p, q] <= [r, x] & [x, r] >= [p]",
        "lfp x # if p then q else x", "lfp x # if p then x else x", "gfp x # if p then x & q else r", "lfp x # p | -(q & -x)", "lfp x # p | (q => x)", "gfp x # (-x) nor p",
        "gfp x # x <= p", "lfp x # (-x) nand -p", "lfp x # p | exists q, r # (q & x)", "gfp x # forall q # (q | x) & p", "lfp x # p | (gfp y # (x | q) & y)",
        "lfp x # p | (lfp y # (x & q) | y | [r, x] >= [y, q])", "gfp x # [p, q] >= [r] & x", "lfp x # [p, q] >= [r] | x",
    ] {
        emit_eval(out, f, &[]);
        emit_eval(out, f, &[("r".to_string(), 0), ("x".to_string(), 1), ("p".to_string(), 4)]);
    }
    // long iterations: a chain that grows by one variable per round (the pattern of tests/data/test_fixpoint.txt),
    // n rounds for n variables, and its dual
    let chain_ns: &[usize] = if o.thorough { &[2, 3, 4, 5, 6, 8, 40, 64, 65, 127, 128, 129, 135, 256, 300] } else { &[2, 3, 4, 5, 6, 8, 40, 129] };
    for &n in chain_ns {
        let mut mu = String::from("mu X # v0");
        let mut nu = String::from("nu X # v0");
        for i in 0..n.saturating_sub(1) {
            mu.push_str(&format!(" | (if (all v{i} # v{i} in X) then (X | v{}) else X)", i + 1));
            nu.push_str(&format!(" & (if (exists v{i} # X & -v{i}) then X else (X & v{}))", i + 1));
        }
        emit_eval(out, &mu, &[]);
        if n <= 8 {
            // the same chain under outer quantifiers that bind all, or all but one, of its variables: the iteration needs n rounds
            // whatever the number of variables that are free in the whole formula
            let all: Vec<String> = (0..n).map(|i| format!("v{i}")).collect();
            emit_eval(out, &format!("exists {} # ({mu})", all.join(", ")), &[]);
            emit_eval(out, &format!("forall {} # ({mu})", all.join(", ")), &[]);
            emit_eval(out, &format!("exists {} # (-v0 & ({mu}))", all[1..].join(", ")), &[]);
            emit_eval(out, &format!("forall {} # (v0 | ({nu}))", all[..n - 1].join(", ")), &[]);
            emit_eval(out, &format!("w & exists {} # ({mu})", all.join(", ")), &[]);
            // ... observed at the one assignment that only the last iterate contains
            let cube: Vec<String> = (0..n).map(|i| if i + 1 == n { format!("v{i}") } else { format!("-v{i}") }).collect();
            emit_eval(out, &format!("exists {} # ({} & ({mu}))", all.join(", "), cube.join(" & ")), &[]);
            emit_eval(out, &format!("exists {} # ({} & ({mu}))", all[..n - 1].join(", "), cube.join(" & ")), &[]);
            emit_eval(out, &format!("forall {} # (({}) => ({mu}))", all.join(", "), cube.join(" & ")), &[]);
            let cube_nu: Vec<String> = (0..n).map(|i| if i + 1 == n { format!("-v{i}") } else { format!("v{i}") }).collect();
            emit_eval(out, &format!("exists {} # ({} & -({nu}))", all.join(", "), cube_nu.join(" & ")), &[]);
        }
        if n <= 40 || o.thorough {
            emit_eval(out, &nu, &[]);
            let all: Vec<String> = (0..n).map(|i| format!("v{i}")).collect();
            emit_eval(out, &format!("({mu}) <=> ({})", all.join(" | ")), &[]);
        }
    }
    let mut rng = Rng::new(o.seed ^ 0x76);
    // reachability-style bodies: clauses that need one, two or three quantified uses of X at once, uses of X under
    // forall, and quantified uses inside counting lists with no quantifier elsewhere
    let nr = if o.thorough { 60_000 } else { 4_000 };
    for k in 0..nr {
        let vars = ["a", "b", "c"];
        let nv = 2 + (k % 2);
        let vs = &vars[..nv];
        let cube = |rng: &mut Rng| -> String {
            let mut lits = vec![];
            for v in vs {
                match rng.below(3) {
                    0 => lits.push(v.to_string()),
                    1 => lits.push(format!("-{v}")),
                    _ => {}
                }
            }
            if lits.is_empty() { "true".to_string() } else { lits.join(" & ") }
        };
        let qx = |rng: &mut Rng, dual: bool| -> String {
            let mut qv: Vec<&str> = vs.iter().filter(|_| rng.chance(2, 3)).cloned().collect();
            if qv.is_empty() {
                qv.push(vs[0]);
            }
            let c = cube(rng);
            if rng.chance(1, 4) != dual {
                format!("(forall {} # (X | -({c})))", qv.join(", "))
            } else {
                format!("(exists {} # (X & {c}))", qv.join(", "))
            }
        };
        let dual = k % 5 == 4;
        let nclauses = 2 + rng.below(3);
        let mut clauses = vec![format!("({})", cube(&mut rng))];
        for _ in 0..nclauses {
            let guard = cube(&mut rng);
            let uses = 1 + rng.below(3);
            let mut parts = vec![format!("({guard})")];
            for _ in 0..uses {
                parts.push(qx(&mut rng, dual));
            }
            clauses.push(format!("({})", parts.join(if dual { " | " } else { " & " })));
        }
        if rng.chance(1, 3) {
            // a counting clause whose operands are quantified uses of X; sometimes the only quantifiers of the body
            let ops: Vec<String> = (0..2 + rng.below(2)).map(|_| qx(&mut rng, dual)).collect();
            let cnt = format!("([{}] >= {})", ops.join(", "), 1 + rng.below(2));
            if rng.chance(1, 2) {
                clauses.truncate(1);
            }
            clauses.push(cnt);
        }
        let f = format!("{} X # {}", if dual { "gfp" } else { "lfp" }, clauses.join(if dual { " & " } else { " | " }));
        emit_eval(out, &f, &[]);
    }
    // nested and alternating fixed points whose inner body mentions the outer name, sibling inner
    // fixed points on one binder name, three levels
    let nn = if o.thorough { 40_000 } else { 2_500 };
    for k in 0..nn {
        let fpk = |rng: &mut Rng| *rng.pick(&["lfp", "gfp", "mu", "nu"]);
        let names = ["p", "q", "x", "y"];
        let body = |rng: &mut Rng, pos: &[&str], depth: u32| {
            let mut s = String::new();
            let mut m = Some(Mono { pos: pos.iter().map(|x| x.to_string()).collect(), neg: vec![], none: vec![] });
            gen_sub(rng, depth, &names, &mut m, &mut s);
            s
        };
        let op = |rng: &mut Rng| *rng.pick(&["&", "|"]);
        let f = match k % 4 {
            0 => format!("{} x # {} y # {}", fpk(&mut rng), fpk(&mut rng), body(&mut rng, &["x", "y"], 3)),
            1 => format!("{} x # ({}) {} {} y # {}", fpk(&mut rng), body(&mut rng, &["x"], 2), op(&mut rng), fpk(&mut rng), body(&mut rng, &["x", "y"], 2)),
            2 => format!(
                "{} x # (({} y # {}) {} ({} y # {})) {} x",
                fpk(&mut rng), fpk(&mut rng), body(&mut rng, &["x", "y"], 2), op(&mut rng), fpk(&mut rng), body(&mut rng, &["x", "y"], 2), op(&mut rng)
            ),
            _ => format!(
                "{} x # {} y # ({}) {} {} q # {}",
                fpk(&mut rng), fpk(&mut rng), body(&mut rng, &["x", "y"], 2), op(&mut rng), fpk(&mut rng), body(&mut rng, &["x", "y", "q"], 2)
            ),
        };
        emit_eval(out, &f, &[]);
    }
    let n = if o.thorough { 60_000 } else { 3_000 };
    let mut made = 0;
    while made < n {
        let depth = 2 + rng.below(3) as u32;
        let f = if made % 4 == 3 { rand_formula_free(&mut rng, depth.min(3), &NAMES3) } else { rand_formula(&mut rng, depth, &NAMES3) };
        if f.contains("fp ") || f.contains("mu ") || f.contains("nu ") {
            emit_eval(out, &f, &[]);
            made += 1;
        }
    }
}

/// API orderings with sparse distinct ids (C11): every injective assignment of ids 0..5 to every subset of <= 3 of four names
pub fn part_evalord(out: &mut Out, _o: &Opts) {
    let names = ["a", "b", "c", "d"];
    let formulas = ["a & -b | c", "d ^ (c & a)", "exists b # (a & b) | (c & d)", "[a, b, c, d] = 2", "if c then a else d", "lfp d # a | (b & d)", "e & a | f & -g", "(a | x1) & (b | x2) & (x3 | x4) & -x5"];
    let mut ords: Vec<Vec<(String, usize)>> = vec![vec![]];
    fn rec(names: &[&str], start: usize, cur: &mut Vec<(String, usize)>, all: &mut Vec<Vec<(String, usize)>>) {
        if cur.len() == 3 {
            return;
        }
        for i in start..names.len() {
            for id in 0..6usize {
                if cur.iter().any(|(_, j)| *j == id) {
                    continue;
                }
                cur.push((names[i].to_string(), id));
                all.push(cur.clone());
                rec(names, i + 1, cur, all);
                cur.pop();
            }
        }
    }
    let mut cur = vec![];
    rec(&names, 0, &mut cur, &mut ords);
    for f in formulas {
        for o in &ords {
            emit_eval(out, f, o);
        }
    }
    // consecutive parses in one thread under orderings of equal length that share their first and last entries, or all but one
    let four = |l: [&str; 4]| -> Vec<(String, usize)> { l.iter().enumerate().map(|(i, n)| (n.to_string(), i)).collect() };
    for f in ["b & -c", "a & -b | c & -d", "exists b # (a & b) | (c & d)", "[a, b, c, d] = 2", "b ^ c"] {
        for o in [["a", "b", "c", "d"], ["a", "c", "b", "d"], ["a", "b", "c", "d"], ["d", "b", "c", "a"], ["a", "b", "d", "c"], ["b", "a", "c", "d"], ["a", "c", "b", "d"]] {
            emit_eval(out, f, &four(o));
        }
    }
}

/// many variables, long lists, deep nesting: sizes that small exhaustive and random inputs never reach
pub fn part_evalwide(out: &mut Out, o: &Opts) {
    let ns: &[usize] = if o.thorough { &[31, 32, 33, 63, 64, 65, 66, 100, 127, 128, 129, 200, 257] } else { &[32, 33, 64, 65, 70, 129] };
    for &n in ns {
        let v: Vec<String> = (0..n).map(|i| format!("v{i}")).collect();
        let lits: Vec<String> = v.iter().enumerate().map(|(i, x)| if i % 5 == 2 { format!("-{x}") } else { x.clone() }).collect();
        emit_eval(out, &lits.join(" & "), &[]);
        emit_eval(out, &lits.join(" | "), &[]);
        // (no xor chain here: without memoisation in the engine it is exponential in n)
        emit_eval(out, &v[..12].join(" ^ "), &[]);
        emit_eval(out, &format!("exists {} # {}", v[1..].join(", "), lits.join(" & ")), &[]);
        emit_eval(out, &format!("forall {} # {}", v[..n - 1].join(", "), lits.join(" | ")), &[]);
        emit_eval(out, &format!("({}) <=> -({})", lits.join(" & "), lits.iter().map(|l| format!("-{l}")).collect::<Vec<_>>().join(" | ")), &[]);
        // the last variable first in the text: ids and first-appearance order differ from index order
        let mut rev = v.clone();
        rev.reverse();
        emit_eval(out, &format!("({}) & ({})", rev.join(" | "), v.join(" | ")), &[]);
        let mut nest = String::new();
        for x in &v {
            nest.push_str(&format!("({x} & -("));
        }
        nest.push_str("true");
        for _ in &v {
            nest.push_str("))");
        }
        emit_eval(out, &nest, &[]);
    }
    // chains of plain literals with a complementary or a repeated literal at every distance (6 .. 33 literals), both connectives
    for n in [6usize, 7, 8, 9, 12, 16, 33] {
        let v: Vec<String> = (0..n).map(|i| format!("l{i}")).collect();
        for (i, j, neg) in [(0usize, n - 1, true), (n - 1, 0, true), (n / 2, n / 2 + 1, true), (0, 1, true), (1, n - 2, false), (0, n - 1, false)] {
            for op in [" & ", " | "] {
                let mut lits: Vec<String> = v.iter().enumerate().map(|(k, x)| if k % 3 == 1 { format!("-{x}") } else { x.clone() }).collect();
                // literal j repeats variable i, in the same or in the opposite polarity
                let base = v[i].clone();
                let was_neg = i % 3 == 1;
                lits[j] = if was_neg != neg { format!("-{base}") } else { base };
                emit_eval(out, &lits.join(op), &[]);
                emit_eval(out, &format!("({}) {op} ({})", lits[..n / 2].join(op), lits[n / 2..].join(op)), &[]);
            }
        }
    }
    // counting over longer lists (the construction is exponential in the list length: up to 14)
    for k in [8usize, 11, 14] {
        let v: Vec<String> = (0..k).map(|i| format!("w{i}")).collect();
        for op in ["<=", "<", ">=", ">", "="] {
            emit_eval(out, &format!("[{}] {op} {}", v.join(", "), k / 2), &[]);
        }
        emit_eval(out, &format!("[{}] >= [{}]", v[..k / 2].join(", "), v[k / 2..].join(", ")), &[]);
        emit_eval(out, &format!("[{}, {}] = {}", v.join(", "), v[..3].join(", "), k / 2 + 1), &[]);
    }
    let mut rng = Rng::new(o.seed ^ 0x77);
    let names20: Vec<String> = (0..20).map(|i| format!("n{i}")).collect();
    let refs: Vec<&str> = names20.iter().map(|s| s.as_str()).collect();
    let n = if o.thorough { 20_000 } else { 1_200 };
    let mut made = 0;
    while made < n {
        let f = rand_formula(&mut rng, 4, &refs);
        // fixed points over 20 names may take long chains; keep this part fixed-point free
        if f.contains("fp ") || f.contains("mu ") || f.contains("nu ") {
            continue;
        }
        emit_eval(out, &f, &[]);
        made += 1;
    }
}

/// language-level quantifiers (C04): every variable list of length <= 3 over four names (order, repetition,
/// names the body does not mention) x exists/forall x bodies, also inside fixed points and under an ordering
pub fn part_evalq(out: &mut Out, _o: &Opts) {
    let names = ["a", "b", "c", "d"];
    let mut lists: Vec<Vec<&str>> = vec![vec![]];
    let mut frontier: Vec<Vec<&str>> = vec![vec![]];
    for _ in 0..3 {
        let mut next = vec![];
        for l in &frontier {
            for n in names {
                let mut m = l.clone();
                m.push(n);
                next.push(m);
            }
        }
        lists.extend(next.iter().cloned());
        frontier = next;
    }
    let bodies = ["a & b & c", "a | b | c", "(a & b) | (c & -a)", "a ^ c", "[a, b, c] = 2", "if b then a else c", "a & d", "true", "(a & b) | exists a # a & c"];
    for l in &lists {
        let vs = l.join(", ");
        for q in ["exists", "forall"] {
            for (i, b) in bodies.iter().enumerate() {
                // the body first (ids by first appearance in the body), then a variant where the list comes first
                emit_eval(out, &format!("({b}) & ({q} {vs} # {b})"), &[]);
                if i % 3 == 0 {
                    emit_eval(out, &format!("{q} {vs} # {b}"), &[]);
                    emit_eval(out, &format!("lfp x # ({b}) | ({q} {vs} # x)"), &[]);
                    emit_eval(out, &format!("gfp x # ({b}) & ({q} {vs} # (x | a))"), &[]);
                    emit_eval(out, &format!("{q} {vs} # {b}"), &[("c".to_string(), 0), ("a".to_string(), 3), ("d".to_string(), 4)]);
                }
            }
        }
    }
}

/// systematic shadowing: an outer binder on `a`, an inner binder on the same name that is closed again
/// (by a bracket, a list comma, an if-branch), and uses of `a` before / after / outside; every body is
/// positive in `a`, so the fixed-point variants converge
pub fn shadow_formulas() -> Vec<String> {
    let outers = ["exists a #", "forall a #", "lfp a #", "gfp a #", "exists b, a #", "forall a, c #", ""];
    let inners = ["exists a #", "forall a #", "lfp a #", "gfp a #", "exists a, b #", "forall c, a #"];
    let mut v = vec![];
    for o in outers {
        for i in inners {
            v.push(format!("{o} (({i} a | b) & (a | c))"));
            v.push(format!("{o} ((a | c) & ({i} a | b))"));
            v.push(format!("{o} [{i} a & b, a, c] >= 2"));
            v.push(format!("{o} [a, {i} a & b, c | a] >= [b, {i} a]"));
            v.push(format!("{o} (if c then ({i} a & b) else a)"));
            v.push(format!("({o} (({i} a & b) | a)) & a"));
            v.push(format!("{o} (({i} (({i} a | b) & a)) | (a & c))"));
            v.push(format!("{o} {i} a | b"));
        }
        v.push(format!("{o} (b & c)"));
        v.push(format!("{o} (exists z # a) | z"));
    }
    v
}

pub fn part_evalshadow(out: &mut Out, _o: &Opts) {
    for f in shadow_formulas() {
        emit_eval(out, &f, &[]);
        emit_eval(out, &f, &[("c".to_string(), 0), ("a".to_string(), 5)]);
    }
}

// ------------------------------------------------------------------------------------------------
// sym: the NamedSymbol contract the model relies on (a variable IS its id; the name is what is printed)

pub fn real_sym(i1: usize, n1: &str, i2: usize, n2: &str) -> String {
    guard(|| {
        use std::hash::{Hash, Hasher};
        let a = NamedSymbol { name: Rc::new(n1.to_string()), id: i1 };
        // equal names share ONE allocation (symbols cloned from a template and given another id)
        let b = NamedSymbol { name: if n1 == n2 { Rc::clone(&a.name) } else { Rc::new(n2.to_string()) }, id: i2 };
        let cmp = match a.cmp(&b) {
            std::cmp::Ordering::Less => "lt",
            std::cmp::Ordering::Equal => "eq",
            std::cmp::Ordering::Greater => "gt",
        };
        let pcmp = match a.partial_cmp(&b) {
            Some(std::cmp::Ordering::Less) => "lt",
            Some(std::cmp::Ordering::Equal) => "eq",
            Some(std::cmp::Ordering::Greater) => "gt",
            None => "none",
        };
        let h1 = |s: &NamedSymbol| {
            let mut x = std::collections::hash_map::DefaultHasher::new();
            s.hash(&mut x);
            x.finish()
        };
        let node = |s: &NamedSymbol| BDD::Choice(Rc::new(BDD::True), s.clone(), Rc::new(BDD::False));
        // equal symbols hash alike, under the std hasher and under the FxHasher of the unique table
        let hash_ok = a != b || (h1(&a) == h1(&b) && node(&a).get_hash() == node(&b).get_hash());
        let node_eq = node(&a) == node(&b);
        let conv: usize = a.clone().into();
        format!("(ok {} {} {} {} {} {} {})", (a == b) as u8, cmp, pcmp, hash_ok as u8, node_eq as u8, conv, name_sx(&format!("{a}")).show())
    })
}

/// TruthTableEntry: parsing of a spelling, the three predicates, Display (also padded, as the table printer uses it)
pub fn real_tte(sp: &str) -> String {
    guard(|| match sp.parse::<rsbdd::TruthTableEntry>() {
        Err(_) => "(err)".into(),
        Ok(e) => format!("(ok {} {} {} {} {})", e.is_true() as u8, e.is_false() as u8, e.is_any() as u8, name_sx(&format!("{e}")).show(), name_sx(&format!("{e:>7}|{e:<6}|")).show()),
    })
}

pub fn part_sym(out: &mut Out, _o: &Opts) {
    for sp in ["true", "True", "t", "T", "1", "false", "False", "f", "F", "0", "any", "Any", "a", "A", "*", "", "TRUE", "yes", "2", "tr", "Truee", " true", "true ", "-", "**", "ANY", "no", "01", "fa", "x"] {
        out.emit("tte", &Sx::l(vec![name_sx(sp)]).show(), &real_tte(sp));
    }
    // small ids, and ids that coincide after truncation to 8, 16, 32 or 63 bits
    let ids = [0usize, 1, 2, 7, 3 + (1 << 8), 3 + (1 << 16), 3 + (1 << 32), 7 + (1 << 32), 1 << 32, (1 << 63) + 2, usize::MAX - 1, usize::MAX];
    let syms: Vec<(usize, &str)> = ids.iter().flat_map(|&i| ["a", "b", "", "é'"].iter().map(move |&n| (i, n))).collect();
    for &(i1, n1) in &syms {
        for &(i2, n2) in &syms {
            let args = Sx::l(vec![Sx::a(i1.to_string()), name_sx(n1), Sx::a(i2.to_string()), name_sx(n2)]);
            out.emit("sym", &args.show(), &real_sym(i1, n1, i2, n2));
        }
    }
}

// ------------------------------------------------------------------------------------------------
// evalx: two separately parsed formulas (two environments, possibly two spellings of the same ids) combined

pub fn real_evalx(t1: &[u8], t2: &[u8]) -> String {
    guard(|| {
        let p1 = ParsedFormula::new(&mut BufReader::new(t1), None);
        let p2 = ParsedFormula::new(&mut BufReader::new(t2), None);
        match (p1, p2) {
            (Ok(p1), Ok(p2)) => {
                let d1 = p1.eval();
                let d2 = p2.eval();
                let e = &p1.env;
                let rs = [
                    e.and(d1.clone(), d2.clone()),
                    e.or(d1.clone(), d2.clone()),
                    BDDEnv::eq(e, d1.clone(), d2.clone()),
                    e.xor(d1.clone(), d2.clone()),
                    e.implies(d1.clone(), d2.clone()),
                    p2.env.and(d2.clone(), d1.clone()),
                    p2.env.ite(d2.clone(), d1.clone(), p2.env.not(d1.clone())),
                ];
                let mut s = String::from("(ok");
                for r in rs.iter() {
                    s.push(' ');
                    show_named(r, &mut s);
                }
                s.push(')');
                s
            }
            _ => "(err)".into(),
        }
    })
}

fn emit_evalx(out: &mut Out, t1: &str, t2: &str) {
    let args = Sx::l(vec![text_sx(t1), text_sx(t2)]);
    out.emit("evalx", &args.show(), &real_evalx(t1.as_bytes(), t2.as_bytes()));
}

const POOL_A: [&str; 3] = ["p", "q", "x"];
const POOL_B: [&str; 3] = ["req", "ack", "busy"];
const POOL_C: [&str; 3] = ["x", "p", "q"];

pub fn part_evalx(out: &mut Out, o: &Opts) {
    for (a, b) in [("(req & ack) | busy", "(r & a) | b"), ("a & b", "b & a"), ("a & -b", "c & -d"), ("[a, b, c] = 2", "[x, y, z] = 2"), ("a", "b"), ("a ^ b", "-(c <=> d)")] {
        emit_evalx(out, a, b);
        emit_evalx(out, b, a);
    }
    let mut rng = Rng::new(o.seed ^ 0xe7a1);
    let n = if o.thorough { 20_000 } else { 1_200 };
    for k in 0..n {
        let depth = 1 + rng.below(3) as u32;
        let s = rng.next();
        // the same structure under two spellings, or two unrelated formulas over pools that share ids
        let f1 = rand_formula(&mut Rng::new(s), depth, &POOL_A);
        let f2 = match k % 3 {
            0 => rand_formula(&mut Rng::new(s), depth, &POOL_B),
            1 => rand_formula(&mut Rng::new(s), depth, &POOL_C),
            _ => rand_formula(&mut rng, depth, &POOL_B),
        };
        emit_evalx(out, &f1, &f2);
    }
}

// ------------------------------------------------------------------------------------------------
// evalid: API orderings with arbitrary (huge, sparse) ids, among them ids crafted so that two different
// sibling sub-diagrams have the same FxHash; both sides work in rank space (ids replaced by their rank)

fn ordering_id_sx(o: &[(String, usize)]) -> Sx {
    Sx::l(o.iter().map(|(n, i)| Sx::l(vec![name_sx(n), Sx::a(i.to_string())])).collect())
}
fn sx_ordering_id(x: &Sx) -> Option<Vec<(String, usize)>> {
    sx_ordering(x)
}

fn show_ranked(b: &BDD<NamedSymbol>, rank: &dyn Fn(usize) -> usize, out: &mut String) {
    match b {
        BDD::False => out.push('F'),
        BDD::True => out.push('T'),
        BDD::Choice(t, v, f) => {
            out.push_str("(N ");
            show_ranked(t, rank, out);
            out.push(' ');
            out.push_str(&rank(v.id).to_string());
            out.push(' ');
            show_ranked(f, rank, out);
            out.push(')');
        }
    }
}
fn show_ranked_usize(b: &BDD<usize>, rank: &dyn Fn(usize) -> usize, out: &mut String) {
    match b {
        BDD::False => out.push('F'),
        BDD::True => out.push('T'),
        BDD::Choice(t, v, f) => {
            out.push_str("(N ");
            show_ranked_usize(t, rank, out);
            out.push(' ');
            out.push_str(&rank(*v).to_string());
            out.push(' ');
            show_ranked_usize(f, rank, out);
            out.push(')');
        }
    }
}

/// mode "d": the diagram as evaluated; mode "c": after the public conversion BDD<NamedSymbol> -> BDD<usize>
pub fn real_evalid(bytes: &[u8], ord: &[(String, usize)], mode: &str) -> String {
    guard(|| {
        let mut rd = BufReader::new(bytes);
        match ParsedFormula::new(&mut rd, to_symbols(ord)) {
            Err(_) => "(err)".into(),
            Ok(p) => {
                let b = p.eval();
                let mut all: Vec<usize> = ord.iter().map(|(_, i)| *i).chain(p.vars.iter().map(|v| v.id)).collect();
                all.sort();
                all.dedup();
                let rank = |i: usize| all.binary_search(&i).unwrap_or(usize::MAX);
                let mut s = String::from("(ok ");
                if mode == "c" {
                    let c: BDD<usize> = BDD::from(b.as_ref().clone());
                    show_ranked_usize(&c, &rank, &mut s);
                } else {
                    show_ranked(&b, &rank, &mut s);
                }
                let rk = |v: &[NamedSymbol]| format!("({})", v.iter().map(|x| rank(x.id).to_string()).collect::<Vec<_>>().join(" "));
                s.push(' ');
                s.push_str(&rk(&p.vars));
                s.push(' ');
                s.push_str(&rk(&p.free_vars));
                s.push_str(" (");
                s.push_str(&p.vars.iter().map(|v| name_sx(&v.name).show()).collect::<Vec<_>>().join(" "));
                s.push_str("))");
                s
            }
        }
    })
}

fn emit_evalid(out: &mut Out, text: &str, ord: &[(String, usize)]) {
    for mode in ["d", "c"] {
        let args = Sx::l(vec![ordering_id_sx(ord), text_sx(text), Sx::a(mode)]);
        Out::starting("evalid", &args.show());
        out.emit("evalid", &args.show(), &real_evalid(text.as_bytes(), ord, mode));
    }
}

/// records the words a value feeds to its hasher
struct Recorder {
    words: Vec<u64>,
    bytes: bool,
}
impl std::hash::Hasher for Recorder {
    fn finish(&self) -> u64 {
        0
    }
    fn write(&mut self, _b: &[u8]) {
        self.bytes = true;
    }
    fn write_u8(&mut self, i: u8) {
        self.words.push(i as u64)
    }
    fn write_u16(&mut self, i: u16) {
        self.words.push(i as u64)
    }
    fn write_u32(&mut self, i: u32) {
        self.words.push(i as u64)
    }
    fn write_u64(&mut self, i: u64) {
        self.words.push(i)
    }
    fn write_usize(&mut self, i: usize) {
        self.words.push(i as u64)
    }
    fn write_isize(&mut self, i: isize) {
        self.words.push(i as usize as u64)
    }
}
const FX_K: u64 = 0x51_7c_c1_b7_27_22_0a_95;
fn fx_run(words: &[u64]) -> u64 {
    words.iter().fold(0u64, |h, w| (h.rotate_left(5) ^ w).wrapping_mul(FX_K))
}
fn record(b: &BDD<NamedSymbol>) -> Option<Vec<u64>> {
    use std::hash::Hash;
    let mut r = Recorder { words: vec![], bytes: false };
    b.hash(&mut r);
    // only usable when this replica of the hasher agrees with the real one
    if r.bytes || fx_run(&r.words) != b.get_hash() {
        None
    } else {
        Some(r.words)
    }
}
fn find_pivot(b: &Rc<BDD<NamedSymbol>>, pivot: &str) -> Option<(Rc<BDD<NamedSymbol>>, Rc<BDD<NamedSymbol>>)> {
    match b.as_ref() {
        BDD::Choice(t, v, f) => {
            if v.name.as_str() == pivot {
                Some((t.clone(), f.clone()))
            } else {
                find_pivot(t, pivot).or_else(|| find_pivot(f, pivot))
            }
        }
        _ => None,
    }
}

/// an ordering (names ascending as listed) in which the id of `target` makes the two children of the node
/// testing `pivot` different diagrams with the same FxHash
fn craft(text: &str, names: &[&str], target: &str, pivot: &str, salt: u64) -> Option<Vec<(String, usize)>> {
    let tpos = names.iter().position(|n| *n == target)?;
    let placeholder = (1usize << 40) + 12345;
    let mk = |tid: usize| -> Vec<(String, usize)> {
        names
            .iter()
            .enumerate()
            .map(|(i, n)| {
                let id = if i < tpos { i * (1 + salt as usize % 5) + (salt as usize % 3) } else if i == tpos { tid } else { usize::MAX - 40 + i };
                (n.to_string(), id)
            })
            .collect()
    };
    let eval = |o: &[(String, usize)]| -> Option<Rc<BDD<NamedSymbol>>> {
        Out::starting("evalid", &Sx::l(vec![ordering_id_sx(o), text_sx(text), Sx::a("d")]).show());
        let p = ParsedFormula::new(&mut BufReader::new(text.as_bytes()), to_symbols(o)).ok()?;
        Some(p.eval())
    };
    let o0 = mk(placeholder);
    let (t, f) = find_pivot(&eval(&o0)?, pivot)?;
    let (wt, wf) = (record(&t)?, record(&f)?);
    if wt.len() != wf.len() {
        return None;
    }
    let k = (0..wt.len()).rev().find(|&i| wt[i] != wf[i])?;
    // the last word in which the two streams differ must be the target id, on exactly one side
    let (wa, wb) = if wf[k] == placeholder as u64 && wt[k] != placeholder as u64 { (&wt, &wf) } else if wt[k] == placeholder as u64 { (&wf, &wt) } else { return None };
    if wb.iter().filter(|w| **w == placeholder as u64).count() != 1 {
        return None;
    }
    let sa = fx_run(&wa[..k]);
    let sb = fx_run(&wb[..k]);
    let tid = (sa.rotate_left(5) ^ wa[k] ^ sb.rotate_left(5)) as usize;
    let o1 = mk(tid);
    // ids must still be strictly increasing in listing order
    if !o1.windows(2).all(|w| w[0].1 < w[1].1) {
        return None;
    }
    // the collision is confirmed on the recorded words (the replica was checked against get_hash above), not by
    // re-evaluating: an implementation that confuses the two diagrams would not build the pivot node at all
    let wb2: Vec<u64> = wb.iter().map(|w| if *w == placeholder as u64 { tid as u64 } else { *w }).collect();
    if wa != &wb2 && fx_run(wa) == fx_run(&wb2) {
        Some(o1)
    } else {
        None
    }
}

fn fx_kinv() -> u64 {
    // inverse of the odd multiplier modulo 2^64 (Newton iteration)
    let mut x: u64 = FX_K;
    for _ in 0..6 {
        x = x.wrapping_mul(2u64.wrapping_sub(FX_K.wrapping_mul(x)));
    }
    x
}

/// an ordering under which the diagrams of the two texts `ta` and `tb` (evaluated separately) have the same FxHash although they
/// differ: the id of `target` (which must occur exactly once in the words of `tb`'s diagram and not in `ta`'s) is solved for by
/// running the hasher forwards up to it and backwards from the wanted hash
fn craft_pair(ta: &str, tb: &str, names: &[&str], target: &str, salt: u64) -> Option<Vec<(String, usize)>> {
    let tpos = names.iter().position(|n| *n == target)?;
    let placeholder = (1usize << 41) + 4321;
    let mk = |tid: usize| -> Vec<(String, usize)> {
        names
            .iter()
            .enumerate()
            .map(|(i, n)| {
                let id = if i < tpos { 1 + i * (1 + salt as usize % 4) + (salt as usize % 3) } else if i == tpos { tid } else { usize::MAX - 40 + i };
                (n.to_string(), id)
            })
            .collect()
    };
    let eval = |t: &str, o: &[(String, usize)]| -> Option<Rc<BDD<NamedSymbol>>> {
        Out::starting("evalid", &Sx::l(vec![ordering_id_sx(o), text_sx(t), Sx::a("d")]).show());
        let p = ParsedFormula::new(&mut BufReader::new(t.as_bytes()), to_symbols(o)).ok()?;
        Some(p.eval())
    };
    let o0 = mk(placeholder);
    let (ea, eb) = (eval(ta, &o0)?, eval(tb, &o0)?);
    let (wa, wb) = (record(ea.as_ref())?, record(eb.as_ref())?);
    if wa.contains(&(placeholder as u64)) || wb.iter().filter(|w| **w == placeholder as u64).count() != 1 {
        return None;
    }
    let pos = wb.iter().position(|w| *w == placeholder as u64)?;
    let kinv = fx_kinv();
    let mut st = fx_run(&wa);
    for w in wb[pos + 1..].iter().rev() {
        st = (st.wrapping_mul(kinv) ^ w).rotate_right(5);
    }
    let tid = (st.wrapping_mul(kinv) ^ fx_run(&wb[..pos]).rotate_left(5)) as usize;
    let o1 = mk(tid);
    if tid == usize::MAX || !o1.windows(2).all(|w| w[0].1 < w[1].1) {
        return None;
    }
    let wb2: Vec<u64> = wb.iter().map(|w| if *w == placeholder as u64 { tid as u64 } else { *w }).collect();
    if wa != wb2 && fx_run(&wa) == fx_run(&wb2) {
        Some(o1)
    } else {
        None
    }
}

pub fn part_evalid(out: &mut Out, o: &Opts) {
    // two arbitrary diagrams with one hash: (text A, text B, names ascending, solved name, formulas in which both arise)
    let pairs: [(&str, &str, &[&str], &str, &[&str]); 6] = [
        ("false", "a", &["b", "X", "a"], "a", &["lfp X # a | (b & (exists a # X))", "a | false", "[a, false, b] >= 1", "if b then a else false"]),
        ("true", "-a", &["b", "X", "a"], "a", &["gfp X # -a & (b | (forall a # X))", "-a & true", "[-a, true, b] = 2"]),
        ("p", "-q", &["p", "c", "q"], "q", &["[p, -q] >= 1", "[p, -q] = 2", "[p, -q, c] <= 1", "p & -q", "p ^ -q", "if p then -q else c", "-p | --q", "lfp X # p | (-q & X)"]),
        ("p & c", "q | d", &["p", "c", "q", "d"], "q", &["(p & c) ^ (q | d)", "[p & c, q | d] = 1", "-(p & c) & -(q | d)", "exists c # (p & c) | -(q | d)"]),
        ("p | c", "-(q & d)", &["p", "c", "q", "d"], "q", &["(p | c) & -(q & d)", "[p | c, -(q & d), c] >= 2", "(p | c) <=> -(q & d)"]),
        ("x", "y & z", &["x", "y", "z"], "y", &["x | (y & z)", "[x, y & z, x] = 2", "forall x # x | (y & z)", "gfp X # (x | X) & (y & z | X)"]),
    ];
    let mut crafted2 = 0;
    for (ta, tb, names, target, forms) in pairs {
        for salt in 0..4u64 {
            if let Some(ord) = craft_pair(ta, tb, names, target, salt) {
                crafted2 += 1;
                for f in forms {
                    emit_evalid(out, f, &ord);
                }
            }
        }
    }
    eprintln!("evalid: {crafted2} crafted orderings with two equal-hash diagrams");
    // (formula, names in ascending id order, name whose id is solved for, name tested by the parent of the colliding pair)
    let templates: [(&str, &[&str], &str, &str); 8] = [
        ("if s then (a | b) else (c | d)", &["s", "a", "c", "b", "d"], "d", "s"),
        ("if s then (a & b) else (c & d)", &["s", "a", "c", "b", "d"], "d", "s"),
        ("(s & (x | y)) | (-s & -z & y)", &["s", "x", "z", "y"], "z", "s"),
        ("if s then (a | b | e) else (c | d | e)", &["s", "a", "c", "b", "d", "e"], "d", "s"),
        ("u | (if s then (a | b) else (c | d))", &["u", "s", "a", "c", "b", "d"], "d", "s"),
        ("(u & s & (a => b)) | (u & -s & (c => d)) | (-u & b)", &["u", "s", "a", "c", "b", "d"], "d", "s"),
        ("exists w # (w & s & (a | b)) | (-w & -s & (c | d))", &["w", "s", "a", "c", "b", "d"], "d", "s"),
        ("[s, a & b, c & d] >= 2", &["s", "a", "c", "b", "d"], "d", "s"),
    ];
    let mut crafted = 0;
    for (text, names, target, pivot) in templates {
        for salt in 0..6u64 {
            if let Some(ord) = craft(text, names, target, pivot, salt) {
                crafted += 1;
                emit_evalid(out, text, &ord);
                // the same diagram inside larger formulas
                emit_evalid(out, &format!("({text}) & ({text})"), &ord);
                emit_evalid(out, &format!("-({text})"), &ord);
            }
        }
    }
    eprintln!("evalid: {crafted} crafted hash-collision orderings");
    // arbitrary sparse ids up to the top of the range
    let mut rng = Rng::new(o.seed ^ 0x1d1d);
    let n = if o.thorough { 20_000 } else { 1_000 };
    let pool = ["a", "b", "c", "x", "y'", "_z", "unused1", "unused2"];
    for _ in 0..n {
        let depth = 1 + rng.below(3) as u32;
        let f = rand_formula(&mut rng, depth, &NAMES6);
        let mut ids: Vec<usize> = vec![];
        let mut ord = vec![];
        let mut listed: Vec<&str> = pool.to_vec();
        // random listing order
        for i in (1..listed.len()).rev() {
            let j = rng.below(i as u64 + 1) as usize;
            listed.swap(i, j);
        }
        for n in listed {
            let id = match rng.below(4) {
                0 => rng.below(10) as usize,
                1 => usize::MAX - 1 - rng.below(10) as usize,
                2 => (rng.next() >> rng.below(60)) as usize,
                _ => (1usize << (rng.below(63) as u32)) + rng.below(3) as usize,
            };
            if id == usize::MAX || ids.contains(&id) {
                continue;
            }
            ids.push(id);
            ord.push((n.to_string(), id));
        }
        // every name of the formula must be listed (an unlisted one would get max id + 1)
        if NAMES6.iter().all(|n| ord.iter().any(|(m, _)| m == n)) {
            emit_evalid(out, &f, &ord);
        }
    }
}

/// text handling at sizes and with characters that short inputs do not contain
pub fn part_evallong(out: &mut Out, o: &Opts) {
    let core = "exists b # (a & b) | [a, c, d] >= 2";
    let mut texts: Vec<String> = vec![];
    for n in [4095usize, 4096, 4097, 8192, 65535, 65536, 65537, 70000] {
        texts.push(format!("{}{core}", " ".repeat(n)));
        texts.push(format!("{core}{}", "\n".repeat(n)));
        texts.push(format!("a &{}b", " ".repeat(n)));
        texts.push(format!("\"{}\" {core}", "x".repeat(n)));
        texts.push(format!("a \"{}\" & b", "c d ".repeat(n / 4)));
    }
    for n in [255usize, 256, 257, 1023, 1024, 1025, 4096, 5000] {
        let id = "v".repeat(n);
        texts.push(format!("{id} & -{id}x | {id}"));
        texts.push(format!("exists {id} # {id} & a"));
    }
    // line ends, byte order mark, tabs, form feed, no trailing newline / several
    for t in [
        "a &\r\nb", "a\r\n&\r\nb\r\n", "\u{feff}a & b", "a & b\u{feff}", "a\t&\tb", "a\u{c}& b", "a & b\n", "a & b\n\n\n", "\na & b", "a &\rb",
        "a\u{a0}& b", "a\u{2028}& b", "a\u{200b}b", "a\u{301} & b", "e\u{301}x & ex", "a & b\0", "\0a & b", "a\0b",
        "x\u{304} & -x", "x\u{304} <=> x", "[e\u{301}, e] = 1", "forall x # (x\u{304} | x)", "a\u{200d}b & -ab", "ﬁ & -fi", "Å & -Å", "x\u{660} & -x0", "a\0& b", "a |\0-b", "(a)\0)",
        "\"open comment a & b", "a & b \"trailing", "a \"x\" \"y\" & b", "a \"\" & b", "\"\"", "\"\r\n\" a",
    ] {
        texts.push(t.to_string());
    }
    // numbers with leading zeros / signs / long digit strings in counting position
    for n in ["0", "00", "01", "007", "+1", "-1", "1_000", "18446744073709551615", "18446744073709551616", "000000000000000000000000000001", "1e3", "0x10", "١"] {
        for op in ["=", "<=", ">=", "<", ">"] {
            texts.push(format!("[a, b, c] {op} {n}"));
        }
    }
    // nesting depth: brackets, negations, binders
    let depths: &[usize] = if o.thorough { &[10, 100, 200, 400] } else { &[10, 100, 200] };
    for &d in depths {
        texts.push(format!("{}a{}", "(".repeat(d), ")".repeat(d)));
        texts.push(format!("{}a", "-".repeat(d)));
        texts.push(format!("{}a", "not ".repeat(d)));
        texts.push(format!("{}a & b", "exists b # ".repeat(d)));
        texts.push(format!("{}a{}", "[".repeat(d.min(50)), "] >= 1".repeat(d.min(50))));
        let mut ite = String::new();
        for _ in 0..d.min(100) {
            ite.push_str("if a then b else ");
        }
        ite.push('c');
        texts.push(ite);
    }
    // comment and quoting characters: backslashes before the closing quote, primes and quotes at either end of the text
    for t in [
        "\"c:\\data\\\" a & b", "\"x\\\"\na & b\n\"y\"\n| c", "x | y \"or z\\\"", "a \\ b", "a\\", "\\a & b", "\"\\\\\" a", "(y <=> x) & y'", "'p | (p & q)", "a | b \"or c\"",
        "\"not\" a & b", "'a'", "''", "a' & 'a", "\"a\" \"b\" c", "`a` & b", "a & b # c", "a & b // c", "a & b /* c */", "a & b -- c", "{a} | {a", "a; b",
    ] {
        texts.push(t.to_string());
    }
    for t in texts {
        Out::starting("eval", &Sx::l(vec![ordering_sx(&[]), text_sx(&t)]).show());
        emit_tok(out, &t, &[]);
        emit_eval(out, &t, &[]);
    }
}

// ------------------------------------------------------------------------------------------------
// identifiers with the same 64-bit FxHash (and the same std SipHash(0,0)?  no: only FxHash can be solved for)

fn fx_str(s: &str) -> u64 {
    use std::hash::{Hash, Hasher};
    let mut h = rustc_hash::FxHasher::default();
    s.hash(&mut h);
    h.finish()
}

/// pairs of distinct 16-character identifiers whose `str` hashes under FxHasher coincide: the first 8 bytes of both are
/// drawn at random, the second 8 bytes are solved byte by byte so that the state after 16 bytes is the same
pub fn colliding_names(seed: u64, want: usize) -> Vec<(String, String)> {
    let alpha: Vec<u8> = (b'a'..=b'z').chain(b'0'..=b'9').chain([b'_']).collect();
    let letters: Vec<u8> = (b'a'..=b'z').collect();
    let mut rng = Rng::new(seed ^ 0xc011);
    let mut out = vec![];
    let mut tries = 0;
    while out.len() < want && tries < 2_000_000 {
        tries += 1;
        let mut w1 = [0u8; 8];
        let mut w1b = [0u8; 8];
        for i in 0..8 {
            w1[i] = if i == 0 { *rng.pick(&letters) } else { *rng.pick(&alpha) };
            w1b[i] = if i == 0 { *rng.pick(&letters) } else { *rng.pick(&alpha) };
        }
        if w1 == w1b {
            continue;
        }
        let st = |w: [u8; 8]| (0u64.rotate_left(5) ^ u64::from_le_bytes(w)).wrapping_mul(FX_K).rotate_left(5);
        let d = (st(w1) ^ st(w1b)).to_le_bytes();
        // second words w2, w2b with w2 ^ w2b = d, both over the identifier alphabet
        let mut w2 = [0u8; 8];
        let mut w2b = [0u8; 8];
        let mut ok = true;
        for i in 0..8 {
            let cands: Vec<u8> = alpha.iter().copied().filter(|c| alpha.contains(&(c ^ d[i]))).collect();
            if cands.is_empty() {
                ok = false;
                break;
            }
            w2[i] = *rng.pick(&cands);
            w2b[i] = w2[i] ^ d[i];
        }
        if !ok {
            continue;
        }
        let a = String::from_utf8([w1, w2].concat()).unwrap();
        let b = String::from_utf8([w1b, w2b].concat()).unwrap();
        // kept only when the real hasher agrees
        if a != b && fx_str(&a) == fx_str(&b) {
            out.push((a, b));
        }
    }
    out
}

pub fn collision_formulas(seed: u64, pairs: usize) -> Vec<String> {
    let mut v = vec![];
    for (a, b) in colliding_names(seed, pairs) {
        for t in [
            format!("{a} & -{b}"),
            format!("{b} & -{a}"),
            format!("exists {a} # ({a} & {b})"),
            format!("forall {b} # ({a} | {b}) & c"),
            format!("[{a}, {b}] = 1"),
            format!("{a} ^ {b} ^ c"),
            format!("lfp {a} # {b} | ({a} & c)"),
            format!("if {a} then {b} else c"),
            format!("c & ({b} => {a})"),
        ] {
            v.push(t);
        }
    }
    v
}

pub fn part_evalcoll(out: &mut Out, o: &Opts) {
    let n = if o.thorough { 40 } else { 6 };
    let pairs = colliding_names(o.seed, n);
    eprintln!("evalcoll: {} colliding identifier pairs", pairs.len());
    for t in collision_formulas(o.seed, n) {
        emit_tok(out, &t, &[]);
        emit_eval(out, &t, &[]);
    }
    // the same names in an API ordering
    for (a, b) in pairs {
        emit_eval(out, &format!("{a} & -{b} | c"), &[(b.clone(), 0), (a.clone(), 1)]);
        emit_eval(out, &format!("{a} & -{b} | c"), &[(a.clone(), 4), ("c".to_string(), 2)]);
    }
}

pub fn main(out: &mut Out, o: &Opts) {
    for p in o.parts.clone() {
        match p.as_str() {
            "evalq" => part_evalq(out, o),
            "evalcoll" => part_evalcoll(out, o),
            "evallong" => part_evallong(out, o),
            "sym" => part_sym(out, o),
            "evalx" => part_evalx(out, o),
            "evalid" => part_evalid(out, o),
            "evalshadow" => part_evalshadow(out, o),
            "evalwide" => part_evalwide(out, o),
            "evalord" => part_evalord(out, o),
            "tok" => part_tok(out, o),
            "parse" => part_parse(out, o),
            "eval" => part_eval(out, o),
            "evalc" => part_evalc(out, o),
            "evalfp" => part_evalfp(out, o),
            _ => panic!("unknown part {p}"),
        }
    }
}
