//! Suite S-dot (C14): the two Graphviz exports, read back.
//! The reader below (DOT statements of the `dot` crate, Rust `escape_default` un-escaping, the label
//! grammar of parser_io.rs) is glue in the trusted base.
use crate::sbdd::{Interp, B};
use crate::stext::{sx_text, text_sx};
use crate::sx::{Rng, Sx};
use crate::{Opts, Out};
use rsbdd::bdd::{BDDEnv, BDD};
use rsbdd::bdd_io::BDDGraph;
use rsbdd::parser::ParsedFormula;
use rsbdd::parser_io::SymbolicParseTree;
use rsbdd::TruthTableEntry;
use std::collections::{BTreeSet, HashMap};
use std::panic::{catch_unwind, AssertUnwindSafe};

pub struct Dot {
    pub nodes: Vec<(String, String)>,
    pub edges: Vec<(String, String, String)>,
}

fn unescape(s: &str) -> Option<String> {
    let mut out = String::new();
    let cs: Vec<char> = s.chars().collect();
    let mut i = 0;
    while i < cs.len() {
        if cs[i] == '\\' {
            i += 1;
            match cs.get(i)? {
                'n' => out.push('\n'),
                't' => out.push('\t'),
                'r' => out.push('\r'),
                '\\' => out.push('\\'),
                '\'' => out.push('\''),
                '"' => out.push('"'),
                'u' => {
                    if cs.get(i + 1) != Some(&'{') {
                        return None;
                    }
                    let mut j = i + 2;
                    let mut v = 0u32;
                    while *cs.get(j)? != '}' {
                        v = v * 16 + cs[j].to_digit(16)?;
                        j += 1;
                    }
                    out.push(char::from_u32(v)?);
                    i = j;
                }
                _ => return None,
            }
            i += 1;
        } else {
            out.push(cs[i]);
            i += 1;
        }
    }
    Some(out)
}

pub fn parse_dot(text: &str) -> Option<Dot> {
    let mut d = Dot { nodes: vec![], edges: vec![] };
    let mut lines = text.lines();
    let first = lines.next()?;
    if !first.starts_with("digraph ") || !first.ends_with('{') {
        return None;
    }
    for line in lines {
        let l = line.trim();
        if l == "}" || l.is_empty() {
            continue;
        }
        let l = l.strip_suffix(';')?;
        let lb = l.find("[label=\"")?;
        let head = &l[..lb];
        let lab = l[lb + 8..].strip_suffix("\"]")?;
        let lab = unescape(lab)?;
        if let Some((a, b)) = head.split_once(" -> ") {
            d.edges.push((a.trim().to_string(), lab, b.trim().to_string()));
        } else {
            d.nodes.push((head.trim().to_string(), lab));
        }
    }
    Some(d)
}

fn flags_of(d: &Dot) -> Vec<&'static str> {
    let mut f = vec![];
    let ids: Vec<&String> = d.nodes.iter().map(|n| &n.0).collect();
    let set: BTreeSet<&String> = ids.iter().cloned().collect();
    if set.len() != ids.len() {
        f.push("dup");
    }
    if d.edges.iter().any(|e| !set.contains(&e.0) || !set.contains(&e.2)) {
        f.push("undeclared");
    }
    f
}

/// canonical form of an exported decision graph: every node id is replaced by the structure it roots
fn canon_bdd(d: &Dot, filter: &str, var_id: &dyn Fn(&str) -> Option<usize>) -> String {
    let mut flags = flags_of(d);
    let label: HashMap<&str, &str> = d.nodes.iter().map(|(i, l)| (i.as_str(), l.as_str())).collect();
    let hidden = match filter {
        "t" => Some("F"),
        "f" => Some("T"),
        _ => None,
    };
    fn build(id: &str, d: &Dot, label: &HashMap<&str, &str>, hidden: Option<&str>, var_id: &dyn Fn(&str) -> Option<usize>, memo: &mut HashMap<String, String>, depth: usize, bad: &mut bool) -> String {
        if let Some(s) = memo.get(id) {
            return s.clone();
        }
        if depth > 200 {
            *bad = true;
            return "?".into();
        }
        let s = if id == "n_true" || id == "n_false" {
            // a leaf means what its LABEL says (that is what a reader of the graph sees); the id only tells that it is a leaf
            match label.get(id).copied() {
                Some("true") => "T".to_string(),
                Some("false") => "F".to_string(),
                None => if id == "n_true" { "T".to_string() } else { "F".to_string() },
                Some(_) => {
                    *bad = true;
                    "?".into()
                }
            }
        } else {
            let lab = label.get(id).copied().unwrap_or("?");
            let v = match var_id(lab) {
                Some(v) => v.to_string(),
                None => {
                    *bad = true;
                    "?".into()
                }
            };
            let mut child = |which: &str| -> String {
                let outs: Vec<&(String, String, String)> = d.edges.iter().filter(|e| e.0 == id && e.1 == which).collect();
                match outs.len() {
                    0 => match hidden {
                        Some(h) => h.to_string(),
                        None => {
                            *bad = true;
                            "?".into()
                        }
                    },
                    1 => build(&outs[0].2, d, label, hidden, var_id, memo, depth + 1, bad),
                    _ => {
                        *bad = true;
                        "?".into()
                    }
                }
            };
            let t = child("T");
            let f = child("F");
            format!("(N {t} {v} {f})")
        };
        memo.insert(id.to_string(), s.clone());
        s
    }
    let mut memo = HashMap::new();
    let mut bad = false;
    let mut nodes: Vec<String> = vec![];
    for (id, _) in &d.nodes {
        nodes.push(build(id, d, &label, hidden, var_id, &mut memo, 0, &mut bad));
    }
    let mut edges: Vec<String> = vec![];
    for (a, l, b) in &d.edges {
        let sa = build(a, d, &label, hidden, var_id, &mut memo, 0, &mut bad);
        let sb = build(b, d, &label, hidden, var_id, &mut memo, 0, &mut bad);
        edges.push(format!("({sa} {l} {sb})"));
    }
    let n0 = nodes.len();
    let e0 = edges.len();
    nodes.sort();
    nodes.dedup();
    edges.sort();
    edges.dedup();
    if (nodes.len() != n0 || edges.len() != e0) && !flags.contains(&"dup") {
        // two declared ids root the same structure: a distinct node is declared more than once
        flags.push("dup");
    }
    if bad {
        flags.push("malformed");
    }
    format!("(ok ({}) ({}) ({}))", nodes.join(" "), edges.join(" "), flags.join(" "))
}

fn tte(f: &str) -> TruthTableEntry {
    match f {
        "t" => TruthTableEntry::True,
        "f" => TruthTableEntry::False,
        _ => TruthTableEntry::Any,
    }
}

pub fn real_dotbdd(filter: &str, e: &Sx) -> String {
    let r = catch_unwind(AssertUnwindSafe(|| {
        let env = BDDEnv::new();
        let it = Interp { env: &env, xenv: false };
        let b: B = it.eval(e, &None).ok()?;
        let mut buf: Vec<u8> = vec![];
        BDDGraph::new(&b, tte(filter)).render_dot(&mut buf).ok()?;
        let text = String::from_utf8(buf).ok()?;
        let d = parse_dot(&text)?;
        Some(canon_bdd(&d, filter, &|l: &str| l.parse::<usize>().ok()))
    }));
    match r {
        Ok(Some(s)) => s,
        Ok(None) => "(unreadable-dot)".into(),
        Err(_) => "(panic)".into(),
    }
}

pub fn real_dotnamed(filter: &str, text: &str) -> String {
    rsbdd::verif_hooks::FP_CAP.with(|c| c.set(crate::stext::EVAL_FP_CAP));
    let r = real_dotnamed_inner(filter, text);
    rsbdd::verif_hooks::FP_CAP.with(|c| c.set(usize::MAX));
    r
}

fn real_dotnamed_inner(filter: &str, text: &str) -> String {
    let r = catch_unwind(AssertUnwindSafe(|| {
        let mut rd = std::io::BufReader::new(text.as_bytes());
        let p = match ParsedFormula::new(&mut rd, None) {
            Ok(p) => p,
            Err(_) => return Some("(err)".to_string()),
        };
        let b = p.eval();
        let mut buf: Vec<u8> = vec![];
        BDDGraph::new(&b, tte(filter)).render_dot(&mut buf).ok()?;
        let d = parse_dot(&String::from_utf8(buf).ok()?)?;
        let names: HashMap<String, usize> = p.vars.iter().map(|v| (v.name.as_ref().clone(), v.id)).collect();
        Some(canon_bdd(&d, filter, &|l: &str| names.get(l).copied()))
    }));
    match r {
        Ok(Some(s)) => s,
        Ok(None) => "(unreadable-dot)".into(),
        Err(p) => {
            if p.downcast_ref::<rsbdd::verif_hooks::FpDiverged>().is_some() {
                "(diverge)".into()
            } else {
                "(panic)".into()
            }
        }
    }
}

/// read a parse-tree graph back as terms
fn canon_tree(d: &Dot, names: &HashMap<String, usize>) -> String {
    let flags = flags_of(d);
    let label: HashMap<&str, &str> = d.nodes.iter().map(|(i, l)| (i.as_str(), l.as_str())).collect();
    fn idx(l: &str, pre: &str) -> Option<usize> {
        l.strip_prefix(pre)?.strip_prefix('{')?.strip_suffix('}')?.parse().ok()
    }
    fn build(id: &str, d: &Dot, label: &HashMap<&str, &str>, names: &HashMap<String, usize>, memo: &mut HashMap<String, String>, depth: usize, bad: &mut bool) -> String {
        if let Some(s) = memo.get(id) {
            if s == "?cycle" {
                // the node is among its own descendants: not a term
                *bad = true;
            }
            return s.clone();
        }
        if depth > 2000 {
            *bad = true;
            return "?".into();
        }
        memo.insert(id.to_string(), "?cycle".into());
        let lab = label.get(id).copied().unwrap_or("?");
        let outs: Vec<&(String, String, String)> = d.edges.iter().filter(|e| e.0 == id).collect();
        let mut one = |which: &str, bad: &mut bool, memo: &mut HashMap<String, String>| -> String {
            let m: Vec<&&(String, String, String)> = outs.iter().filter(|e| e.1 == which).collect();
            if m.len() == 1 {
                build(&m[0].2, d, label, names, memo, depth + 1, bad)
            } else {
                *bad = true;
                "?".into()
            }
        };
        let mut listed = |pre: &str, bad: &mut bool, memo: &mut HashMap<String, String>| -> String {
            let mut items: Vec<(usize, &str)> = outs.iter().filter_map(|e| idx(&e.1, pre).map(|j| (j, e.2.as_str()))).collect();
            items.sort();
            for (k, (j, _)) in items.iter().enumerate() {
                if *j != k {
                    *bad = true;
                }
            }
            let parts: Vec<String> = items.iter().map(|(_, t)| build(t, d, label, names, memo, depth + 1, bad)).collect();
            format!("({})", parts.join(" "))
        };
        let var = |n: &str, bad: &mut bool| -> String {
            match names.get(n) {
                Some(i) => i.to_string(),
                None => {
                    *bad = true;
                    "?".into()
                }
            }
        };
        let bin = |l: &str| match l {
            "And" => Some("and"),
            "Or" => Some("or"),
            "Xor" => Some("xor"),
            "Nor" => Some("nor"),
            "Nand" => Some("nand"),
            "Implies" => Some("imp"),
            "ImpliesInv" => Some("impinv"),
            "Iff" => Some("iff"),
            _ => None,
        };
        let cop = |l: &str| match l {
            "AtMost" => Some("le"),
            "LessThan" => Some("lt"),
            "AtLeast" => Some("ge"),
            "MoreThan" => Some("gt"),
            "Exactly" => Some("eq"),
            _ => None,
        };
        let expect_outs = |n: usize, bad: &mut bool| {
            if outs.len() != n {
                *bad = true;
            }
        };
        let s = if let Some(op) = bin(lab) {
            expect_outs(2, bad);
            format!("(Bin {} {} {})", op, one("L", bad, memo), one("R", bad, memo))
        } else if lab == "Not" {
            expect_outs(1, bad);
            format!("(Not {})", one("", bad, memo))
        } else if lab == "Ite" {
            expect_outs(3, bad);
            format!("(Ite {} {} {})", one("If", bad, memo), one("Then", bad, memo), one("Else", bad, memo))
        } else if lab == "False" {
            expect_outs(0, bad);
            "F".into()
        } else if lab == "True" {
            expect_outs(0, bad);
            "T".into()
        } else if let Some(n) = lab.strip_prefix("Var ") {
            expect_outs(0, bad);
            format!("(V {})", var(n, bad))
        } else if lab.starts_with("Ref ") {
            expect_outs(0, bad);
            "(Ref)".into()
        } else if let Some(n) = lab.strip_prefix("GFP ") {
            expect_outs(1, bad);
            format!("(Fix {} 1 {})", var(n, bad), one("", bad, memo))
        } else if let Some(n) = lab.strip_prefix("LFP ") {
            expect_outs(1, bad);
            format!("(Fix {} 0 {})", var(n, bad), one("", bad, memo))
        } else if lab.starts_with("Exists [") || lab.starts_with("Forall [") {
            expect_outs(1, bad);
            let q = if lab.starts_with("Exists") { "ex" } else { "all" };
            let inner = lab[8..].strip_suffix(']').unwrap_or("");
            let vs: Vec<String> = if inner.is_empty() { vec![] } else { inner.split(", ").map(|n| var(n, bad)).collect() };
            format!("(Q {} ({}) {})", q, vs.join(" "), one("", bad, memo))
        } else if let Some(op) = cop(lab) {
            let l = listed("L", bad, memo);
            let r = listed("R", bad, memo);
            format!("(CV {op} {l} {r})")
        } else if let Some((o, n)) = lab.split_once(' ') {
            match cop(o) {
                Some(op) => {
                    let l = listed("", bad, memo);
                    format!("(CC {op} {l} {n})")
                }
                None => {
                    *bad = true;
                    "?".into()
                }
            }
        } else {
            *bad = true;
            "?".into()
        };
        memo.insert(id.to_string(), s.clone());
        s
    }
    let mut memo = HashMap::new();
    let mut bad = false;
    let mut nodes: Vec<String> = d.nodes.iter().map(|(id, _)| build(id, d, &label, names, &mut memo, 0, &mut bad)).collect();
    let lab_sx = |l: &str| -> String {
        if l == "L" || l == "R" || l == "If" || l == "Then" || l == "Else" {
            l.to_string()
        } else if l.is_empty() {
            "E".into()
        } else if let Some(j) = idx(l, "L") {
            format!("(LI {j})")
        } else if let Some(j) = idx(l, "R") {
            format!("(RI {j})")
        } else if let Some(j) = idx(l, "") {
            format!("(I {j})")
        } else {
            "?".into()
        }
    };
    let mut edges: Vec<String> = d
        .edges
        .iter()
        .map(|(a, l, b)| format!("({} {} {})", memo.get(a.as_str()).cloned().unwrap_or("?".into()), lab_sx(l), memo.get(b.as_str()).cloned().unwrap_or("?".into())))
        .collect();
    // root: the unique node without incoming edge
    let roots: Vec<&(String, String)> = d.nodes.iter().filter(|(id, _)| !d.edges.iter().any(|e| &e.2 == id)).collect();
    let root = if roots.len() == 1 { memo.get(roots[0].0.as_str()).cloned().unwrap_or("?".into()) } else { format!("(roots {})", roots.len()) };
    let n0 = nodes.len();
    nodes.sort();
    nodes.dedup();
    edges.sort();
    edges.dedup();
    if nodes.len() != n0 || !flags.is_empty() || bad {
        return format!("(bad-graph dup={} flags={} malformed={})", nodes.len() != n0, flags.join(","), bad);
    }
    format!("(ok ({}) ({}) {})", nodes.join(" "), edges.join(" "), root)
}

pub fn real_dottree(text: &str) -> String {
    let r = catch_unwind(AssertUnwindSafe(|| {
        let mut rd = std::io::BufReader::new(text.as_bytes());
        let p = match ParsedFormula::new(&mut rd, None) {
            Ok(p) => p,
            Err(_) => return Some("(err)".to_string()),
        };
        let mut buf: Vec<u8> = vec![];
        SymbolicParseTree::new(&p.bdd).render_dot(&mut buf).ok()?;
        let d = parse_dot(&String::from_utf8(buf).ok()?)?;
        let names: HashMap<String, usize> = p.vars.iter().map(|v| (v.name.as_ref().clone(), v.id)).collect();
        Some(canon_tree(&d, &names))
    }));
    match r {
        Ok(Some(s)) => s,
        Ok(None) => "(unreadable-dot)".into(),
        Err(_) => "(panic)".into(),
    }
}

fn tt(vars: &[usize], n: u128) -> Sx {
    Sx::op("tt", vec![Sx::l(vars.iter().map(Sx::n).collect()), Sx::n(n)])
}

pub fn main(out: &mut Out, o: &Opts) {
    if o.parts.iter().any(|p| p == "files") {
        part_files(out, o);
        if o.parts.len() == 1 {
            return;
        }
    }
    // all functions of 3 variables x 3 filters (two variable triples), all of 4 variables for filter Any in thorough
    for vars in [[0usize, 1, 2], [1, 4, 6]] {
        for n in 0..256u128 {
            for f in ["a", "t", "f"] {
                let e = tt(&vars, n);
                out.emit("dotbdd", &Sx::l(vec![Sx::a(f), e.clone()]).show(), &real_dotbdd(f, &e));
            }
        }
    }
    let n4 = if o.thorough { 65536u128 } else { 4096 };
    for n in (0..65536u128).step_by((65536 / n4) as usize) {
        for f in ["a", "t", "f"] {
            let e = tt(&[0, 1, 2, 3], n);
            out.emit("dotbdd", &Sx::l(vec![Sx::a(f), e.clone()]).show(), &real_dotbdd(f, &e));
        }
    }
    let mut rng = Rng::new(o.seed ^ 0xd0);
    // named diagrams: names needing escaping
    let names = ["a", "x'", "é", "_b", "ß2", "q'"];
    let nn = if o.thorough { 50_000 } else { 2_000 };
    for _ in 0..nn {
        let depth = 1 + rng.below(3) as u32;
        let f = crate::stext::rand_formula(&mut rng, depth, &names);
        let filt = *rng.pick(&["a", "t", "f"]);
        out.emit("dotnamed", &Sx::l(vec![Sx::a(filt), text_sx(&f)]).show(), &real_dotnamed(filt, &f));
    }
    // fixed points whose intermediate iterates survive inside the answer, followed by a re-use of the same sub-functions,
    // under all six variable orders (fixed by a tautology prefix that mentions the variables in that order)
    {
        let perms = [["a", "y", "x"], ["a", "x", "y"], ["y", "a", "x"], ["y", "x", "a"], ["x", "a", "y"], ["x", "y", "a"]];
        let bodies = [
            "lfp Z # (x | (y & exists x # Z))", "gfp Z # (x & (y | forall x # Z))", "lfp Z # (a | (y & Z) | (x & exists a # Z))",
            "lfp Z # ((a & x) | (y & exists a, x # Z))", "gfp Z # ((a | x) & (y | forall a # Z))", "lfp Z # (x | (y & exists x # Z) | (a & exists y # Z))",
            "lfp Z # (x & y) | (a & exists x, y # Z)", "lfp Z # gfp W # (x | (y & exists x # Z)) & (W | a)",
        ];
        let reuse = ["& (a | x)", "| (y & x)", "& x", "^ y", "& (x | y)", "| (a & -x)", "<=> (x | y)"];
        for (k, pm) in perms.iter().enumerate() {
            let prefix = format!("(({0} | -{0}) & ({1} | -{1}) & ({2} | -{2}))", pm[0], pm[1], pm[2]);
            for (i, b) in bodies.iter().enumerate() {
                for (j, r) in reuse.iter().enumerate() {
                    let f = format!("{prefix} & (({b}) {r})");
                    let filt = ["a", "t", "f"][(i + j + k) % 3];
                    out.emit("dotnamed", &Sx::l(vec![Sx::a(filt), text_sx(&f)]).show(), &real_dotnamed(filt, &f));
                }
            }
        }
    }
    // parse trees: every node kind, repeated sub-terms
    for f in [
        "a", "-a", "a & a", "(a | b) & (a | b)", "[a, a, b] = 2", "[a, b] < [b, a, a]", "exists a, b # a & b", "forall # a", "lfp x # x | a",
        "gfp x # x & a", "if a then b else a", "true & false", "{r} | {r} & a", "[] >= 0", "[] = []", "a ^ b nor c nand d => e <= f <=> g",
        "[a & b, a & b, -(a & b)] > 1", "exists x' # x' | é",
    ] {
        out.emit("dottree", &Sx::l(vec![text_sx(f)]).show(), &real_dottree(f));
    }
    // sizes: long binder lists, long counting lists, long names, deep nesting (labels carry whole lists)
    for n in [6usize, 7, 8, 12, 33, 70] {
        let v: Vec<String> = (0..n).map(|i| format!("v{i}")).collect();
        let long: Vec<String> = (0..n.min(8)).map(|i| format!("{}{}", "n".repeat(20 + 3 * i), i)).collect();
        let fs = [
            format!("exists {} # {}", v.join(", "), v.join(" & ")),
            format!("forall {} # {}", v.join(", "), v.join(" | ")),
            format!("[{}] = {}", v.join(", "), n / 2),
            format!("[{}] >= [{}]", v.join(", "), v[..n / 2].join(", ")),
            format!("exists {} # forall {} # {}", v[..n / 2].join(", "), v[n / 2..].join(", "), v.join(" ^ ")),
            format!("exists {} # {}", long.join(", "), long.join(" | ")),
            format!("lfp {} # {} | {}", long[0], long[0], long[long.len() - 1]),
        ];
        for f in fs {
            out.emit("dottree", &Sx::l(vec![text_sx(&f)]).show(), &real_dottree(&f));
        }
    }
    let nt = if o.thorough { 100_000 } else { 4_000 };
    for k in 0..nt {
        let depth = 1 + rng.below(4) as u32;
        let pool: &[&str] = if k % 2 == 0 { &crate::stext::NAMES3 } else { &names };
        let f = crate::stext::rand_formula_free(&mut rng, depth, pool);
        out.emit("dottree", &Sx::l(vec![text_sx(&f)]).show(), &real_dottree(&f));
    }
}

/// the same two exports as written by the binary (`-d FILE`, `-p FILE`, with `-f` and `-m`), read back from the files
pub fn part_files(out: &mut Out, o: &Opts) {
    use crate::scli::{par_map, run_bin};
    let bin = format!("{}/rsbdd", o.bindir);
    let dir = std::path::PathBuf::from(format!("/verif/_build/tmp/{}", std::process::id()));
    let _ = std::fs::create_dir_all(&dir);
    let mut rng = Rng::new(o.seed ^ 0xd1);
    let mut cases: Vec<(String, &'static str)> = vec![];
    for f in crate::scli::FORMULAS.iter() {
        if f.contains("fp ") {
            continue;
        }
        for filt in ["a", "t", "f"] {
            cases.push((f.to_string(), filt));
        }
    }
    let n = if o.thorough { 5_000 } else { 300 };
    for _ in 0..n {
        let depth = 1 + rng.below(3) as u32;
        let f = crate::stext::rand_formula(&mut rng, depth, &["a", "x'", "é", "_b", "q"]);
        if f.contains("fp ") || f.contains("mu ") || f.contains("nu ") || f.contains("{") {
            continue;
        }
        cases.push((f, *rng.pick(&["a", "t", "f"])));
    }
    let idx: Vec<usize> = (0..cases.len()).collect();
    let res = par_map(&idx, |i| {
        let (text, filt) = &cases[*i];
        let d = dir.join(format!("d{i}.dot"));
        let p = dir.join(format!("p{i}.dot"));
        let mut args: Vec<String> = vec!["-r".into(), format!("--dot={}", d.display()), format!("--parsetree={}", p.display())];
        match *filt {
            "t" => args.push("--filter=true".into()),
            "f" => args.push("--filter=false".into()),
            _ => {}
        }
        let r = run_bin(&bin, &args, Some(text.as_bytes()), std::time::Duration::from_secs(20));
        let dtext = std::fs::read_to_string(&d).unwrap_or_default();
        let ptext = std::fs::read_to_string(&p).unwrap_or_default();
        let _ = std::fs::remove_file(&d);
        let _ = std::fs::remove_file(&p);
        if r.timed_out {
            return "(timeout)\u{1}(timeout)".to_string();
        }
        match r.code {
            Some(0) => {}
            Some(101) | None => return "(panic)\u{1}(panic)".to_string(),
            Some(_) => return "(err)\u{1}(err)".to_string(),
        }
        // without an ordering the ids are 0, 1, ... in the order of the -r list
        let names: HashMap<String, usize> = String::from_utf8_lossy(&r.stdout).lines().enumerate().map(|(i, l)| (l.to_string(), i)).collect();
        let a = match parse_dot(&dtext) {
            Some(g) => canon_bdd(&g, filt, &|l: &str| names.get(l).copied()),
            None => "(unreadable-dot)".into(),
        };
        let b = match parse_dot(&ptext) {
            Some(g) => canon_tree(&g, &names),
            None => "(unreadable-dot)".into(),
        };
        format!("{a}\u{1}{b}")
    });
    for ((text, filt), ab) in cases.iter().zip(res.iter()) {
        let (a, b) = ab.split_once('\u{1}').unwrap_or((ab.as_str(), ""));
        out.emit("dotnamed", &Sx::l(vec![Sx::a(*filt), text_sx(text), Sx::a("binary")]).show(), a);
        out.emit("dottree", &Sx::l(vec![text_sx(text), Sx::a("binary")]).show(), b);
    }
    let _ = std::fs::remove_dir_all(&dir);
}

pub fn replay(op: &str, args: &Sx) -> String {
    let a = match args.list() {
        Some(a) => a,
        None => return "(harness-error args)".into(),
    };
    match (op, a.len()) {
        ("dotbdd", 2) => real_dotbdd(a[0].atom().unwrap_or("a"), &a[1]),
        ("dotnamed", 2) => match sx_text(&a[1]) {
            Some(t) => real_dotnamed(a[0].atom().unwrap_or("a"), &t),
            None => "(harness-error decode)".into(),
        },
        ("dottree", 1) => match sx_text(&a[0]) {
            Some(t) => real_dottree(&t),
            None => "(harness-error decode)".into(),
        },
        _ => "(harness-unknown-op)".into(),
    }
}
