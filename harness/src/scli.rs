//! Suites S-cli and S-robust: the rsbdd binary (table, -v, -r, -o, -m, -c, -f, -b, three input
//! channels) against `cli` of Cli/Pipeline.v, and panic-freedom of library and binary on arbitrary bytes.
use crate::stext::{self, text_sx};
use crate::sx::{Rng, Sx};
use crate::{Opts, Out};
use std::io::Write;
use std::process::{Command, Stdio};
use std::sync::atomic::{AtomicUsize, Ordering};
use std::time::{Duration, Instant};

#[derive(Clone, Debug)]
pub struct Case {
    pub filter: &'static str, // spelling passed to -f ("" = option absent)
    pub retain: &'static str, // spelling passed to -c
    pub model: bool,
    pub repeat: Option<usize>,
    pub ord: Option<Vec<u8>>,
    pub text: Vec<u8>,
    pub channel: u8, // 0 stdin, 1 file, 2 --evaluate=
    pub roundtrip: bool,
    pub env: Vec<(String, String)>, // environment variables exported to the binary (none in ordinary cases)
}

fn canon(sp: &str) -> &'static str {
    match sp {
        "true" | "True" | "t" | "T" | "1" => "t",
        "false" | "False" | "f" | "F" | "0" => "f",
        _ => "a",
    }
}

fn classes_of(bytes: &[u8]) -> Sx {
    // class table for the non-ASCII code points of a (lossily decoded) byte string
    let s = String::from_utf8_lossy(bytes);
    let mut seen = std::collections::BTreeMap::new();
    if let Some(l) = text_sx(&s).list() {
        for a in l {
            if let Some(t) = a.atom() {
                if let Some((c, k)) = t.split_once(':') {
                    seen.insert(c.to_string(), k.to_string());
                }
            }
        }
    }
    Sx::l(seen.into_iter().map(|(c, k)| Sx::l(vec![Sx::a(c), Sx::a(k)])).collect())
}

pub fn bytes_sx(bytes: &[u8]) -> Sx {
    match std::str::from_utf8(bytes) {
        Ok(s) => text_sx(s),
        Err(_) => Sx::op("raw", vec![Sx::l(bytes.iter().map(Sx::n).collect()), classes_of(bytes)]),
    }
}
pub fn sx_bytes(x: &Sx) -> Option<Vec<u8>> {
    if x.head() == Some("raw") {
        let l = x.list()?;
        return l[1].list()?.iter().map(|a| a.atom()?.parse::<u8>().ok()).collect();
    }
    stext::sx_text(x).map(|s| s.into_bytes())
}

pub fn case_sx(c: &Case) -> Sx {
    Sx::l(vec![
        Sx::l(vec![Sx::a(canon(c.filter)), Sx::a(canon(c.retain)), Sx::n(c.model as u8), Sx::n(c.repeat.unwrap_or(1))]),
        match &c.ord {
            None => Sx::a("none"),
            Some(o) => bytes_sx(o),
        },
        bytes_sx(&c.text),
        // everything below is ignored by the model: how the request reaches the binary
        Sx::l(vec![Sx::a(if c.filter.is_empty() { "-" } else { c.filter }.replace('*', "star")), Sx::a(if c.retain.is_empty() { "-" } else { c.retain }), Sx::n(c.channel), Sx::n(c.repeat.is_some() as u8), Sx::n(c.roundtrip as u8),
                   Sx::l(c.env.iter().map(|(k, v)| Sx::l(vec![Sx::a(k.clone()), Sx::a(v.clone())])).collect())]),
    ])
}

static COUNTER: AtomicUsize = AtomicUsize::new(0);

fn tmpdir() -> std::path::PathBuf {
    let d = std::path::PathBuf::from(format!("/verif/_build/tmp/{}", std::process::id()));
    let _ = std::fs::create_dir_all(&d);
    d
}

pub struct RunOut {
    pub code: Option<i32>,
    pub stdout: Vec<u8>,
    pub stderr: Vec<u8>,
    pub timed_out: bool,
}

pub fn run_bin(bin: &str, args: &[String], stdin: Option<&[u8]>, limit: Duration) -> RunOut {
    run_bin_env(bin, args, stdin, limit, &[])
}

pub fn run_bin_env(bin: &str, args: &[String], stdin: Option<&[u8]>, limit: Duration, envs: &[(String, String)]) -> RunOut {
    let mut cmd = Command::new(bin);
    for (k, v) in envs {
        cmd.env(k, v);
    }
    cmd.args(args).env("RUST_BACKTRACE", "0").stdin(Stdio::piped()).stdout(Stdio::piped()).stderr(Stdio::piped());
    let mut child = match cmd.spawn() {
        Ok(c) => c,
        Err(_) => return RunOut { code: None, stdout: vec![], stderr: b"spawn failed".to_vec(), timed_out: false },
    };
    {
        let mut si = child.stdin.take().unwrap();
        if let Some(b) = stdin {
            let _ = si.write_all(b);
        }
    }
    let mut so = child.stdout.take().unwrap();
    let mut se = child.stderr.take().unwrap();
    let t1 = std::thread::spawn(move || {
        let mut v = vec![];
        let _ = std::io::Read::read_to_end(&mut so, &mut v);
        v
    });
    let t2 = std::thread::spawn(move || {
        let mut v = vec![];
        let _ = std::io::Read::read_to_end(&mut se, &mut v);
        v
    });
    let start = Instant::now();
    let mut timed_out = false;
    let code = loop {
        match child.try_wait() {
            Ok(Some(st)) => break st.code(),
            Ok(None) => {
                if start.elapsed() > limit {
                    let _ = child.kill();
                    let _ = child.wait();
                    timed_out = true;
                    break None;
                }
                std::thread::sleep(Duration::from_millis(2));
            }
            Err(_) => break None,
        }
    };
    RunOut { code, stdout: t1.join().unwrap_or_default(), stderr: t2.join().unwrap_or_default(), timed_out }
}

fn name_list(names: &[String]) -> String {
    names.iter().map(|n| format!("({})", n.chars().map(|c| (c as u32).to_string()).collect::<Vec<_>>().join(" "))).collect::<Vec<_>>().join(" ")
}

/// parse the combined stdout of `rsbdd -r -t -v`: order names, header, rows, -v lines
fn parse_output(out: &str) -> Option<(Vec<String>, Vec<String>, Vec<String>, Vec<String>)> {
    let mut order = vec![];
    let mut header: Option<Vec<String>> = None;
    let mut rows = vec![];
    let mut tvl = vec![];
    let mut seen_sep = false;
    for line in out.lines() {
        if line.starts_with('|') {
            let cells: Vec<String> = line.trim_matches('|').split('|').map(|c| c.trim().to_string()).collect();
            if header.is_none() {
                let mut h = cells;
                if h.pop().as_deref() != Some("*") {
                    return None;
                }
                header = Some(h);
            } else if !seen_sep {
                seen_sep = true;
            } else {
                let n = cells.len();
                if n == 0 {
                    return None;
                }
                let mut s = String::from("((");
                for (i, c) in cells[..n - 1].iter().enumerate() {
                    if i > 0 {
                        s.push(' ');
                    }
                    s.push_str(match c.as_str() {
                        "True" => "T",
                        "False" => "F",
                        "Any" => "A",
                        _ => return None,
                    });
                }
                s.push_str(match cells[n - 1].as_str() {
                    "True" => ") 1)",
                    "False" => ") 0)",
                    _ => return None,
                });
                rows.push(s);
            }
        } else if let Some(body) = line.strip_suffix(';') {
            tvl.push(body.to_string());
        } else {
            order.push(line.to_string());
        }
    }
    Some((order, header.unwrap_or_default(), rows, tvl))
}

pub fn run_case(bindir: &str, c: &Case) -> String {
    let bin = format!("{bindir}/rsbdd");
    let dir = tmpdir();
    let k = COUNTER.fetch_add(1, Ordering::SeqCst);
    let mut args: Vec<String> = vec!["-t".into(), "-v".into(), "-r".into()];
    if !c.filter.is_empty() {
        args.push(format!("--filter={}", c.filter));
    }
    if !c.retain.is_empty() {
        args.push(format!("--retain-choices={}", c.retain));
    }
    if c.model {
        args.push("-m".into());
    }
    if let Some(n) = c.repeat {
        args.push(format!("--benchmark={n}"));
    }
    let mut cleanup = vec![];
    if let Some(o) = &c.ord {
        let p = dir.join(format!("ord{k}"));
        let _ = std::fs::write(&p, o);
        args.push(format!("--ordering={}", p.display()));
        cleanup.push(p);
    }
    let mut stdin: Option<&[u8]> = None;
    let text_utf8 = std::str::from_utf8(&c.text).ok();
    let channel = if c.channel == 2 && (text_utf8.is_none() || c.text.contains(&0)) { 1 } else { c.channel };
    match channel {
        0 => stdin = Some(&c.text),
        1 => {
            let p = dir.join(format!("in{k}"));
            let _ = std::fs::write(&p, &c.text);
            // a positional argument starting with '-' or '@' would be taken by clap / argfile: the path is absolute
            args.push(p.display().to_string());
            cleanup.push(p);
        }
        _ => args.push(format!("--evaluate={}", text_utf8.unwrap_or(""))),
    }
    let r = run_bin_env(&bin, &args, stdin, Duration::from_secs(20), &c.env);
    for p in cleanup {
        let _ = std::fs::remove_file(p);
    }
    classify_run(&r, c, bindir)
}

fn classify_run(r: &RunOut, c: &Case, bindir: &str) -> String {
    if r.timed_out {
        return "(timeout)".into();
    }
    let stderr = String::from_utf8_lossy(&r.stderr);
    match r.code {
        Some(0) => {}
        Some(101) | None => return "(panic)".into(),
        Some(_) => {
            if stderr.contains("panicked at") {
                return "(panic)".into();
            }
            return "(err)".into();
        }
    }
    let out = String::from_utf8_lossy(&r.stdout);
    let (order, header, mut rows, tvl) = match parse_output(&out) {
        Some(x) => x,
        None => return "(unparsable-output)".into(),
    };
    rows.sort();
    // -v lines: "name, name*;" -> cells in header order
    let mut tv: Vec<String> = vec![];
    for l in &tvl {
        let items: Vec<&str> = if l.is_empty() { vec![] } else { l.split(", ").collect() };
        let mut cells = vec![];
        for h in &header {
            if items.iter().any(|i| i == h) {
                cells.push("T");
            } else if items.iter().any(|i| i.strip_suffix('*') == Some(h.as_str())) {
                cells.push("A");
            } else {
                cells.push("F");
            }
        }
        if items.len() != cells.iter().filter(|c| **c != "F").count() {
            return "(unparsable-output)".into();
        }
        tv.push(format!("({})", cells.join(" ")));
    }
    tv.sort();
    let res = format!("(ok ({}) ({}) ({}) ({}))", name_list(&header), rows.join(" "), tv.join(" "), name_list(&order));
    if c.roundtrip {
        // C11: feeding the exported order back with -o reproduces the identical table
        let mut c2 = c.clone();
        c2.ord = Some(order.join("\n").into_bytes());
        c2.roundtrip = false;
        let res2 = run_case(bindir, &c2);
        if res2 != res {
            return format!("(ok-roundtrip-differs {} {})", res, res2);
        }
    }
    res
}

fn par_run(bindir: &str, cases: &[Case]) -> Vec<String> {
    let n = cases.len();
    let next = AtomicUsize::new(0);
    let results: Vec<std::sync::Mutex<String>> = (0..n).map(|_| std::sync::Mutex::new(String::new())).collect();
    std::thread::scope(|s| {
        for _ in 0..16 {
            s.spawn(|| loop {
                let i = next.fetch_add(1, Ordering::SeqCst);
                if i >= n {
                    break;
                }
                let r = run_case(bindir, &cases[i]);
                *results[i].lock().unwrap() = r;
            });
        }
    });
    results.into_iter().map(|m| m.into_inner().unwrap()).collect()
}

pub const FORMULAS: [&str; 40] = [
    "a", "-a", "true", "false", "a & b", "a | b", "a ^ b", "a => b", "a <= b", "a <=> b", "a nor b", "a nand b",
    "a & -a", "a | -a", "if a then b else c", "(a | b) & (c | -a)", "exists a # a & b", "forall a # a | b",
    "exists a, b # (a ^ b) & c", "a & exists a # a | b", "[a, b, c] = 1", "[a, b, c] >= 2", "[a, b, c] <= 1",
    "[a, b] < [c, d]", "[a, b, c] > 0", "[] = 0", "[a & b, c] = [a, d]", "lfp x # a | (b & x)", "gfp x # a & (b | x)",
    "lfp x # a | exists a # x", "a & (b | c) & -d", "x' | _y & z1", "-(a & b) & -(b & c) & -(a & c)", "a ^ b ^ c ^ d",
    "(a => b) & (b => c) & (c => a)", "[a, b, c, d] = 2", "c & a", "b | (c & a)", "forall b # a => b", "not a and not b",
];

const FILTER_SPELLINGS: [&str; 15] = ["true", "True", "t", "T", "1", "false", "False", "f", "F", "0", "any", "Any", "a", "A", "*"];

fn base(text: &str) -> Case {
    Case { filter: "", retain: "", model: false, repeat: None, ord: None, text: text.as_bytes().to_vec(), channel: 0, roundtrip: false, env: vec![] }
}

fn orderings(names: &[&str]) -> Vec<Vec<String>> {
    // all sequences of distinct names (length 0..=len)
    let mut all: Vec<Vec<String>> = vec![vec![]];
    let mut frontier: Vec<Vec<String>> = vec![vec![]];
    for _ in 0..names.len() {
        let mut next = vec![];
        for l in &frontier {
            for n in names {
                if !l.iter().any(|x| x == n) {
                    let mut m = l.clone();
                    m.push(n.to_string());
                    next.push(m);
                }
            }
        }
        all.extend(next.iter().cloned());
        frontier = next;
    }
    all
}

/// names of environment variables the binary may read: announced by clap in --help ("[env: NAME=...]") or
/// mentioned in the sources (env = "NAME", env::var("NAME"), env!("NAME") excluded: that is compile time)
pub fn env_names(bindir: &str) -> Vec<String> {
    let mut names: Vec<String> = vec![];
    let help = run_bin(&format!("{bindir}/rsbdd"), &["--help".to_string()], None, Duration::from_secs(20));
    let mut texts = vec![String::from_utf8_lossy(&help.stdout).to_string()];
    for dir in ["/repo/src", "/repo/src/bin"] {
        if let Ok(rd) = std::fs::read_dir(dir) {
            for e in rd.flatten() {
                if e.path().extension().map(|x| x == "rs").unwrap_or(false) {
                    if let Ok(t) = std::fs::read_to_string(e.path()) {
                        texts.push(t);
                    }
                }
            }
        }
    }
    let pats = [r"\[env: ([A-Za-z_][A-Za-z0-9_]*)=", r#"env\s*=\s*"([A-Za-z_][A-Za-z0-9_]*)""#, r#"env::var(?:_os)?\(\s*"([A-Za-z_][A-Za-z0-9_]*)""#];
    for p in pats {
        let re = regex::Regex::new(p).unwrap();
        for t in &texts {
            for c in re.captures_iter(t) {
                let n = c[1].to_string();
                if !names.contains(&n) {
                    names.push(n);
                }
            }
        }
    }
    names.sort();
    names
}

pub fn gen_cases(o: &Opts, part: &str) -> Vec<Case> {
    let mut v = vec![];
    let mut rng = Rng::new(o.seed ^ 0x7c);
    match part {
        "grid" => {
            for (i, f) in FORMULAS.iter().enumerate() {
                for sp in FILTER_SPELLINGS {
                    let mut c = base(f);
                    c.filter = sp;
                    c.channel = (i % 3) as u8;
                    v.push(c);
                }
                for ch in 0..3u8 {
                    let mut c = base(f);
                    c.channel = ch;
                    v.push(c);
                }
                for retain in ["t", "f", "True", "false"] {
                    for model in [false, true] {
                        let mut c = base(f);
                        c.retain = retain;
                        c.model = model;
                        v.push(c);
                    }
                }
                // -c together with -f, equal and different polarities
                for (retain, filt) in [("t", "t"), ("t", "f"), ("f", "t"), ("f", "f")] {
                    let mut c = base(f);
                    c.retain = retain;
                    c.filter = filt;
                    v.push(c.clone());
                    if i % 4 == 0 {
                        c.model = true;
                        v.push(c);
                    }
                }
                let mut c = base(f);
                c.model = true;
                v.push(c.clone());
                c.filter = "t";
                v.push(c);
                for b in [1usize, 2, 3] {
                    let mut c = base(f);
                    c.repeat = Some(b);
                    v.push(c);
                }
            }
        }
        "order" => {
            let fs = ["a & -b", "b | (c & a)", "a ^ b ^ c", "c & a", "[a, b, c] = 1", "exists b # a & b | c", "if c then a else b",
                      "a => (b => c)", "lfp c # a | (b & c)", "a", "forall a # a | b", "(a | b) & (c | -a)"];
            for f in fs {
                for ord in orderings(&["a", "b", "c", "u"]) {
                    let mut c = base(f);
                    c.ord = Some(ord.join(" ").into_bytes());
                    c.roundtrip = true;
                    v.push(c);
                }
                // duplicates, punctuation, keywords and numbers inside the ordering file
                for ord in ["a a b", "b, a; c", "c\nb\na\n", "a & b | c", "u1 u2 u3 a", "true a false b", "b \"comment\" a", "", "12 a"] {
                    let mut c = base(f);
                    c.ord = Some(ord.as_bytes().to_vec());
                    c.roundtrip = true;
                    v.push(c);
                }
            }
        }
        "env" => {
            // the command line (with its files and stdin) is the only input of the model: every environment variable the
            // binary announces in --help or reads in its source is exported with filter-like values
            for name in env_names(&o.bindir) {
                for val in ["True", "False", "Any", "t", "f", "0", "1"] {
                    for (i, f) in FORMULAS.iter().enumerate().take(12) {
                        for (filt, ret) in [("", ""), ("t", ""), ("f", ""), ("", "t"), ("f", "f"), ("a", "a")] {
                            if (i + filt.len() + ret.len()) % 2 == 1 && !filt.is_empty() && !ret.is_empty() {
                                continue;
                            }
                            let mut c = base(f);
                            c.filter = filt;
                            c.retain = ret;
                            c.env = vec![(name.clone(), val.to_string())];
                            v.push(c);
                        }
                    }
                }
            }
        }
        "coll" => {
            // identifiers that collide under FxHash, as formula variables and in the ordering file, with the round trip
            let n = if o.thorough { 20 } else { 4 };
            for (k, f) in stext::collision_formulas(o.seed, n).iter().enumerate() {
                let mut c = base(f);
                c.channel = (k % 3) as u8;
                c.roundtrip = k % 2 == 0;
                v.push(c);
            }
            for (a, b) in stext::colliding_names(o.seed, n) {
                let mut c = base(&format!("{a} & -{b} | c"));
                c.ord = Some(format!("{b} c {a}").into_bytes());
                c.roundtrip = true;
                v.push(c);
            }
        }
        "models" => {
            // -m on formulas whose diagrams come from every evaluator path: counting (constants at the boundaries, list against
            // list with operands shared at different multiplicities, names occurring in the right-hand list only), shadowing, random
            let mut fs: Vec<String> = vec![];
            for op in ["<=", "<", ">=", ">", "="] {
                for (l, r) in [("a, a", "a, b"), ("a, a, c", "a, b"), ("a", "x"), ("p, q", "r"), ("a, b", "c, d"), ("a & b, c", "a, d"), ("", "a"), ("a, b, a", "b, b, c"), ("a | b", "a | b, c")] {
                    fs.push(format!("[{l}] {op} [{r}]"));
                    fs.push(format!("-a & ([{l}] {op} [{r}])"));
                }
                for n in [0, 1, 2, 3] {
                    fs.push(format!("[a, b, c & a] {op} {n}"));
                }
            }
            for (k, f) in stext::shadow_formulas().into_iter().enumerate() {
                if k % 3 == 0 {
                    fs.push(f);
                }
            }
            let n = if o.thorough { 5_000 } else { 400 };
            for k in 0..n {
                let depth = 1 + rng.below(3) as u32;
                let names: &[&str] = if k % 2 == 0 { &stext::NAMES3 } else { &stext::NAMES6 };
                fs.push(stext::rand_formula(&mut rng, depth, names));
            }
            for (k, f) in fs.iter().enumerate() {
                let mut c = base(f);
                c.model = true;
                c.filter = ["", "t", "", "f"][k % 4];
                v.push(c);
            }
        }
        "texts" => {
            // comment / quoting / prime characters at the edges of the text, through all three channels (the channels must agree)
            for t in [
                "\"c:\\data\\\" a & b", "\"x\\\"\na & b\n\"y\"\n| c", "x | y \"or z\\\"", "(y <=> x) & y'", "'p | (p & q)", "a | b \"or c\"", "\"not\" a & b", "a' & 'a",
                " a & b ", "a & b\n", "\ta | b", "a & b\"", "\"a & b", "-a", "--a", "a & b #", "x' | x''",
            ] {
                for ch in 0..3u8 {
                    let mut c = base(t);
                    c.channel = ch;
                    v.push(c);
                }
            }
        }
        "shadow" => {
            for (k, f) in stext::shadow_formulas().iter().enumerate() {
                let mut c = base(f);
                c.filter = ["", "t", "f"][k % 3];
                c.channel = (k % 3) as u8;
                v.push(c);
            }
        }
        "names" => {
            // long variable names (20 .. 200 characters) with an ordering file that does not list them last, and the -r / -o round trip
            // names with combining marks, joiners, connector punctuation, superscripts: one name in the formula, one in the ordering file
            for nm in ["e\u{301}x", "p\u{200d}q", "p\u{203f}q", "x\u{b2}", "a\u{30a}", "n\u{303}o", "\u{e9}x", "z\u{0660}"] {
                for f in [format!("{nm} & (b | -c)"), format!("exists b # ({nm} | b) & c")] {
                    for ord in [format!("{nm}\nc\nb"), format!("c {nm}"), format!("b, {nm}, unused")] {
                        let mut c = base(&f);
                        c.ord = Some(ord.into_bytes());
                        c.roundtrip = true;
                        v.push(c);
                    }
                }
            }
            for len in [20usize, 23, 24, 25, 26, 32, 64, 200] {
                let l1 = format!("{}_1", "reactor_cooling_valve_".repeat(10)[..len].to_string());
                let l2 = format!("{}_2", "m".repeat(len));
                for f in [format!("({l1} & -b) | ({l2} & c)"), format!("exists b # ({l2} | b) & ({l1} ^ c)"), format!("[{l1}, {l2}, b] = 2")] {
                    for ord in [format!("{l2} b {l1}"), format!("{l1} c"), String::new(), format!("c {l2} unused {l1} b")] {
                        let mut c = base(&f);
                        if !ord.is_empty() {
                            c.ord = Some(ord.into_bytes());
                        }
                        c.roundtrip = true;
                        v.push(c);
                    }
                }
            }
        }
        "size" => {
            // size boundaries: tables with 63..130 columns; evaluations that build thousands of table entries and
            // end in a constant, repeated with -b
            for n in [63usize, 64, 65, 66, 70, 130] {
                let names: Vec<String> = (0..n).map(|i| format!("v{i}")).collect();
                let lits: Vec<String> = names.iter().enumerate().map(|(i, v)| if i % 7 == 3 { format!("-{v}") } else { v.clone() }).collect();
                for (op, filt) in [(" & ", ""), (" & ", "t"), (" & ", "f"), (" | ", ""), (" | ", "t"), (" | ", "f")] {
                    let mut c = base(&lits.join(op));
                    c.filter = filt;
                    v.push(c.clone());
                    c.model = true;
                    v.push(c);
                }
            }
            let k = if o.thorough { 15 } else { 13 };
            let a: Vec<String> = (0..k).map(|i| format!("a{i}")).collect();
            let pairs: Vec<String> = (0..k).map(|i| format!("(a{i} & b{i})")).collect();
            // the a's come first in the variable order, so the diagram of the disjunction has about 2^k nodes
            let big = format!("(({} & false) | {})", a.join(" & "), pairs.join(" | "));
            for f in [format!("{big} & -{big}"), format!("{big} | -{big}"), format!("{big} <=> {big}"), format!("exists {} # {big}", a.join(", "))] {
                for b in [None, Some(1usize), Some(2), Some(3)] {
                    let mut c = base(&f);
                    c.repeat = b;
                    v.push(c);
                }
            }
        }
        "random" => {
            let n = if o.thorough { 20_000 } else { 1_500 };
            for k in 0..n {
                let depth = 1 + rng.below(3) as u32;
                let names: &[&str] = if k % 2 == 0 { &stext::NAMES3 } else { &stext::NAMES6 };
                let f = stext::rand_formula(&mut rng, depth, names);
                let mut c = base(&f);
                c.filter = *rng.pick(&["", "", "t", "f", "a", "True", "0", "*"]);
                c.retain = *rng.pick(&["", "", "", "t", "f", "Any"]);
                c.model = rng.chance(1, 4);
                c.repeat = if rng.chance(1, 6) { Some(1 + rng.below(3) as usize) } else { None };
                c.channel = rng.below(3) as u8;
                if rng.chance(1, 2) {
                    let pool = ["a", "b", "c", "x", "y'", "_z", "p", "q", "unused", "w2", ",", "a"];
                    let len = rng.below(6);
                    let names: Vec<&str> = (0..len).map(|_| *rng.pick(&pool)).collect();
                    c.ord = Some(names.join(*rng.pick(&[" ", "\n", ", "])).into_bytes());
                    c.roundtrip = rng.chance(1, 2);
                }
                v.push(c);
            }
        }
        "robustbin" => {
            let n = if o.thorough { 10_000 } else { 1_000 };
            for _ in 0..n {
                let text = rand_bytes(&mut rng);
                let mut c = Case { filter: "", retain: "", model: false, repeat: None, ord: None, text, channel: (rng.below(2)) as u8, roundtrip: false, env: vec![] };
                c.filter = *rng.pick(&["", "t", "f"]);
                c.retain = *rng.pick(&["", "t", "f"]);
                c.model = rng.chance(1, 3);
                if rng.chance(1, 3) {
                    c.ord = Some(rand_bytes(&mut rng));
                }
                v.push(c);
            }
        }
        _ => panic!("unknown cli part {part}"),
    }
    v
}

/// arbitrary bytes: token soups with extreme and non-ASCII numerals, stray quotes/braces, raw bytes
/// incl. invalid UTF-8, mutated formulas, deep nesting
pub fn rand_bytes(rng: &mut Rng) -> Vec<u8> {
    const SOUP: [&str; 36] = [
        "a", "b", "x'", "(", ")", "[", "]", ",", "#", "&", "|", "-", "!", "=>", "<=", "<=>", "=", ">=", ">", "<", "^", "true", "false",
        "exists", "forall", "lfp", "gfp", "if", "then", "else", "0", "1", "99999999999999999999999", "18446744073709551615", "٣", "{r}",
    ];
    match rng.below(8) {
        0 => (0..rng.below(24)).map(|_| rng.below(256) as u8).collect(),
        1 => {
            let mut v: Vec<u8> = stext::rand_formula(rng, 3, &stext::NAMES3).into_bytes();
            for _ in 0..rng.below(3) + 1 {
                if v.is_empty() {
                    break;
                }
                let i = rng.below(v.len() as u64) as usize;
                match rng.below(3) {
                    0 => {
                        v.remove(i);
                    }
                    1 => v.insert(i, rng.below(256) as u8),
                    _ => v[i] = rng.below(256) as u8,
                }
            }
            v
        }
        2 => {
            let d = 1 + rng.below(200) as usize;
            let mut s = String::new();
            let open = *rng.pick(&["(", "-(", "[", "-"]);
            for _ in 0..d {
                s.push_str(open);
            }
            s.push('a');
            if rng.chance(3, 4) {
                for _ in 0..d {
                    s.push_str(if open.ends_with('(') { ")" } else if open == "[" { "] = 1" } else { "" });
                }
            }
            s.into_bytes()
        }
        3 => {
            let n = 1 + if rng.chance(1, 40) { rng.below(1500) } else { rng.below(120) } as usize;
            let op = *rng.pick(&[" & ", " | ", " => ", " ^ "]);
            let mut s = String::new();
            for i in 0..n {
                if i > 0 {
                    s.push_str(op);
                }
                s.push_str(*rng.pick(&["a", "b", "-a", "c"]));
            }
            s.into_bytes()
        }
        4 => stext::rand_formula(rng, 3, &stext::NAMES3).into_bytes(),
        5 => {
            // very long lexemes: identifiers / references / numbers of 1..160 characters mixing 1-, 2-, 3- and 4-byte
            // characters, placed where the parser looks ahead (list head, binder list) and at error positions
            let len = 1 + rng.below(160) as usize;
            let lead = rng.below(4) as usize;
            let mut name = String::new();
            for _ in 0..lead {
                name.push(*rng.pick(&['x', '_', 'q']));
            }
            let body = *rng.pick(&['é', 'a', '漢', 'ß', '\u{1d6fc}', '7', '٣']);
            for _ in 0..len {
                name.push(if rng.chance(1, 12) { *rng.pick(&['a', 'é', '漢', '_', '\'']) } else { body });
            }
            let t = *rng.pick(&["exists L # (L & y)", "[L, b, c] >= 2", "a L", "{L}", "L", "forall a, L # L | a", "lfp L # L | a", "[a] = L", "-L & (L", "if L then a else L L"]);
            t.replace('L', &name).into_bytes()
        }
        _ => {
            let mut s = String::new();
            for _ in 0..rng.below(14) + 1 {
                s.push_str(*rng.pick(&SOUP));
                s.push_str(*rng.pick(&[" ", " ", "", "\n", "\"", "\u{0}", "{", "}"]));
            }
            s.into_bytes()
        }
    }
}

fn preflight_diverges(text: &[u8], ord: &Option<Vec<u8>>) -> bool {
    // a diverging fixed point would hang the binary: detected in-process under the iteration cap
    let o: Vec<(String, usize)> = match ord {
        None => vec![],
        Some(b) => {
            // mimic the binary: tokenize the ordering file, first appearance order
            let r = stext::real_tok(b, &[]);
            match crate::sx::parse(&r) {
                Ok(x) if x.head() == Some("ok") => {
                    let l = x.list().unwrap();
                    let mut names: Vec<String> = vec![];
                    for n in l[2].list().unwrap_or(&[]) {
                        let s: String = n.list().unwrap_or(&[]).iter().filter_map(|a| a.atom()?.parse::<u32>().ok().and_then(char::from_u32)).collect();
                        if !names.contains(&s) {
                            names.push(s);
                        }
                    }
                    names.into_iter().enumerate().map(|(i, n)| (n, i)).collect()
                }
                _ => return false,
            }
        }
    };
    stext::real_eval(text, &o) == "(diverge)"
}

pub fn main(out: &mut Out, o: &Opts) {
    for p in o.parts.clone() {
        if p == "robustlib" {
            part_robustlib(out, o);
            continue;
        }
        let cases: Vec<Case> = gen_cases(o, &p).into_iter().filter(|c| !preflight_diverges(&c.text, &c.ord)).collect();
        let res = par_run(&o.bindir, &cases);
        for (c, r) in cases.iter().zip(res.iter()) {
            out.emit("cli", &case_sx(c).show(), r);
        }
    }
    let _ = std::fs::remove_dir_all(tmpdir());
}

/// in-process: tokenize / new / eval (and the two DOT renderers, model, retain) never panic
pub fn part_robustlib(out: &mut Out, o: &Opts) {
    let mut rng = Rng::new(o.seed ^ 0x7d);
    let n = if o.thorough { 600_000 } else { 40_000 };
    let inputs: Vec<Vec<u8>> = (0..n).map(|_| rand_bytes(&mut rng)).collect();
    let res = par_map(&inputs, |b| real_robust(b));
    for (b, r) in inputs.iter().zip(res.iter()) {
        out.emit("robust", &Sx::l(vec![bytes_sx(b)]).show(), r);
    }
}

pub fn par_map<T: Sync, F: Fn(&T) -> String + Sync>(items: &[T], f: F) -> Vec<String> {
    let n = items.len();
    let next = AtomicUsize::new(0);
    let results: Vec<std::sync::Mutex<String>> = (0..n).map(|_| std::sync::Mutex::new(String::new())).collect();
    std::thread::scope(|s| {
        for _ in 0..16 {
            s.spawn(|| loop {
                let i = next.fetch_add(1, Ordering::SeqCst);
                if i >= n {
                    break;
                }
                let r = f(&items[i]);
                *results[i].lock().unwrap() = r;
            });
        }
    });
    results.into_iter().map(|m| m.into_inner().unwrap()).collect()
}

pub fn real_robust(bytes: &[u8]) -> String {
    use rsbdd::parser::ParsedFormula;
    use std::panic::{catch_unwind, AssertUnwindSafe};
    rsbdd::verif_hooks::FP_CAP.with(|c| c.set(stext::EVAL_FP_CAP));
    let r = catch_unwind(AssertUnwindSafe(|| {
        let mut rd = std::io::BufReader::new(bytes);
        match ParsedFormula::new(&mut rd, None) {
            Err(_) => "(err)".to_string(),
            Ok(p) => {
                let b = p.eval();
                // exercise everything the binary may do with the answer
                let mut sink: Vec<u8> = vec![];
                for f in [rsbdd::TruthTableEntry::Any, rsbdd::TruthTableEntry::True, rsbdd::TruthTableEntry::False] {
                    let _ = rsbdd::bdd_io::BDDGraph::new(&b, f).render_dot(&mut sink);
                    let _ = p.env.retain_choice_bottom_up(b.clone(), f);
                }
                let _ = rsbdd::parser_io::SymbolicParseTree::new(&p.bdd).render_dot(&mut sink);
                let m = p.env.model(b.clone());
                for node in m.node_list() {
                    if let rsbdd::bdd::BDD::Choice(_, s, _) = node.as_ref() {
                        let _ = p.to_free_index(s);
                    }
                }
                for node in b.node_list() {
                    if let rsbdd::bdd::BDD::Choice(_, s, _) = node.as_ref() {
                        let _ = p.to_free_index(s);
                    }
                }
                "(ok)".to_string()
            }
        }
    }));
    rsbdd::verif_hooks::FP_CAP.with(|c| c.set(usize::MAX));
    match r {
        Ok(s) => s,
        Err(p) => {
            if p.downcast_ref::<rsbdd::verif_hooks::FpDiverged>().is_some() {
                "(diverge)".into()
            } else {
                "(panic)".into()
            }
        }
    }
}

pub fn replay(op: &str, args: &Sx, bindir: &str) -> String {
    let a = match args.list() {
        Some(a) => a,
        None => return "(harness-error args)".into(),
    };
    if op == "robust" {
        return match sx_bytes(&a[0]) {
            Some(b) => real_robust(&b),
            None => "(harness-error decode)".into(),
        };
    }
    if a.len() < 4 {
        return "(harness-error args)".into();
    }
    let how = a[3].list().unwrap_or(&[]);
    fn leak(s: &str) -> &'static str {
        Box::leak(s.to_string().into_boxed_str())
    }
    let f = how.first().and_then(|x| x.atom()).unwrap_or("-").replace("star", "*");
    let r = how.get(1).and_then(|x| x.atom()).unwrap_or("-").to_string();
    let o0 = a[0].list().unwrap_or(&[]);
    let c = Case {
        filter: if f == "-" { "" } else { leak(&f) },
        retain: if r == "-" { "" } else { leak(&r) },
        model: o0.get(2).and_then(|x| x.atom()) == Some("1"),
        repeat: if how.get(3).and_then(|x| x.atom()) == Some("1") { o0.get(3).and_then(|x| x.atom()).and_then(|s| s.parse().ok()) } else { None },
        ord: if a[1].atom() == Some("none") { None } else { sx_bytes(&a[1]) },
        text: sx_bytes(&a[2]).unwrap_or_default(),
        channel: how.get(2).and_then(|x| x.atom()).and_then(|s| s.parse().ok()).unwrap_or(0),
        roundtrip: how.get(4).and_then(|x| x.atom()) == Some("1"),
        env: how
            .get(5)
            .and_then(|x| x.list())
            .map(|l| l.iter().filter_map(|p| Some((p.list()?.first()?.atom()?.to_string(), p.list()?.get(1)?.atom()?.to_string()))).collect())
            .unwrap_or_default(),
    };
    run_case(bindir, &c)
}
