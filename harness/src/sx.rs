//! Canonical s-expressions shared with the OCaml driver (DESIGN.md §12).
#[derive(Debug, Clone, PartialEq, Eq, Hash)]
pub enum Sx {
    A(String),
    L(Vec<Sx>),
}

impl Sx {
    pub fn a<S: Into<String>>(s: S) -> Sx {
        Sx::A(s.into())
    }
    pub fn n<T: std::fmt::Display>(n: T) -> Sx {
        Sx::A(n.to_string())
    }
    pub fn l(v: Vec<Sx>) -> Sx {
        Sx::L(v)
    }
    pub fn op(name: &str, mut args: Vec<Sx>) -> Sx {
        let mut v = vec![Sx::a(name)];
        v.append(&mut args);
        Sx::L(v)
    }
    pub fn write(&self, out: &mut String) {
        match self {
            Sx::A(s) => out.push_str(s),
            Sx::L(v) => {
                out.push('(');
                for (i, x) in v.iter().enumerate() {
                    if i > 0 {
                        out.push(' ');
                    }
                    x.write(out);
                }
                out.push(')');
            }
        }
    }
    pub fn show(&self) -> String {
        let mut s = String::new();
        self.write(&mut s);
        s
    }
    pub fn atom(&self) -> Option<&str> {
        match self {
            Sx::A(s) => Some(s),
            _ => None,
        }
    }
    pub fn list(&self) -> Option<&[Sx]> {
        match self {
            Sx::L(v) => Some(v),
            _ => None,
        }
    }
    pub fn head(&self) -> Option<&str> {
        self.list().and_then(|v| v.first()).and_then(|x| x.atom())
    }
    pub fn size(&self) -> usize {
        match self {
            Sx::A(_) => 1,
            Sx::L(v) => 1 + v.iter().map(|x| x.size()).sum::<usize>(),
        }
    }
}

pub fn parse(s: &str) -> Result<Sx, String> {
    let b = s.as_bytes();
    let mut pos = 0usize;
    fn skip(b: &[u8], pos: &mut usize) {
        while *pos < b.len() && b[*pos] == b' ' {
            *pos += 1;
        }
    }
    fn one(b: &[u8], pos: &mut usize) -> Result<Sx, String> {
        skip(b, pos);
        if *pos >= b.len() {
            return Err("eof".into());
        }
        if b[*pos] == b'(' {
            *pos += 1;
            let mut items = vec![];
            loop {
                skip(b, pos);
                if *pos >= b.len() {
                    return Err("unclosed".into());
                }
                if b[*pos] == b')' {
                    *pos += 1;
                    break;
                }
                items.push(one(b, pos)?);
            }
            Ok(Sx::L(items))
        } else if b[*pos] == b')' {
            Err("unexpected )".into())
        } else {
            let st = *pos;
            while *pos < b.len() && b[*pos] != b' ' && b[*pos] != b'(' && b[*pos] != b')' {
                *pos += 1;
            }
            Ok(Sx::A(String::from_utf8_lossy(&b[st..*pos]).into_owned()))
        }
    }
    let r = one(b, &mut pos)?;
    skip(b, &mut pos);
    if pos != b.len() {
        return Err("trailing".into());
    }
    Ok(r)
}

/// SplitMix64: every random choice of the harness derives from one state seeded by VERIF_SEED.
#[derive(Clone)]
pub struct Rng(pub u64);
impl Rng {
    pub fn new(seed: u64) -> Rng {
        Rng(seed ^ 0x9E37_79B9_7F4A_7C15)
    }
    pub fn next(&mut self) -> u64 {
        self.0 = self.0.wrapping_add(0x9E37_79B9_7F4A_7C15);
        let mut z = self.0;
        z = (z ^ (z >> 30)).wrapping_mul(0xBF58_476D_1CE4_E5B9);
        z = (z ^ (z >> 27)).wrapping_mul(0x94D0_49BB_1331_11EB);
        z ^ (z >> 31)
    }
    pub fn below(&mut self, n: u64) -> u64 {
        if n == 0 {
            0
        } else {
            self.next() % n
        }
    }
    pub fn range(&mut self, lo: i64, hi: i64) -> i64 {
        lo + self.below((hi - lo + 1) as u64) as i64
    }
    pub fn chance(&mut self, num: u64, den: u64) -> bool {
        self.below(den) < num
    }
    pub fn pick<'a, T>(&mut self, v: &'a [T]) -> &'a T {
        &v[self.below(v.len() as u64) as usize]
    }
    pub fn fork(&mut self) -> Rng {
        Rng(self.next())
    }
}
